#!/venv/bin/python
"""Minimises each C16 replay of a directory by greedy line deletion (keeping
the same mechanism) and prints one example per mechanism."""
import glob, json, os, sys
sys.path.insert(0, os.path.dirname(os.path.dirname(os.path.abspath(__file__))))
from vlib import common
common.repo_on_path()
from vlib.checks import c16
from compiler.front_end import parser
parser.module_parser()

def mechs(files, main):
    try:
        st, viol = c16.monitor_compile(files, main)
    except Exception as e:
        return set()
    return set(m for m, _ in viol)

def minimize(files, main, mech):
    files = dict(files)
    for name in sorted(files):
        if files[name] is None: continue
        lines = files[name].split("\n")
        changed = True
        while changed:
            changed = False
            for i in range(len(lines) - 1, -1, -1):
                cand = lines[:i] + lines[i + 1:]
                f2 = dict(files); f2[name] = "\n".join(cand)
                if mech in mechs(f2, main):
                    lines = cand; files = f2; changed = True
    return files

seen = set()
for p in sorted(glob.glob(os.path.join(sys.argv[1], "*.json"))):
    d = json.load(open(p))
    mech = d["mechanism"].split(":", 1)[1]
    if mech.startswith(("cli-crash", "embossc-")) or mech in seen:
        continue
    seen.add(mech)
    rp = d["replay"]
    if mech not in mechs(rp["files"], rp["main"]):
        print("=== %s: NOT REPRODUCED in-process (%s)" % (mech, d["what"][:150])); continue
    m = minimize(rp["files"], rp["main"], mech)
    print("=== %s\n    %s" % (mech, d["what"][:200]))
    for n, t in m.items():
        print("--- %s\n%s" % (n, t))
