#!/venv/bin/python
"""Seeded-change bookkeeping.
  seeded.py verify <wt-id> <name> <prop>   confirm the sub-agent's claims in its worktree, store under /verif/seeded/<name>
  seeded.py check <name> [CHECK ...]       apply the stored patch to /repo, run the checks (quick), undo it
  seeded.py scratch <name> [CHECK ...]     same, on a scratch copy of /repo (EMBOSS_REPO), for use while other
                                           runs are reading /repo
Environment: SEEDED_SEED (default 0), SEEDED_TIER (default quick).
"""
import glob, json, os, shutil, subprocess, sys

VERIF = os.path.dirname(os.path.dirname(os.path.abspath(__file__)))


def sh(cmd, cwd=None, timeout=3000):
    r = subprocess.run(cmd, shell=True, cwd=cwd, capture_output=True, text=True, timeout=timeout)
    return r.returncode, (r.stdout + r.stderr)


def demo_cmd(wt, lid):
    if os.path.exists(os.path.join(wt, "demo_%s.py" % lid)):
        return "/venv/bin/python demo_%s.py" % lid
    return "bash demo_%s.sh" % lid


def verify(lid, name, prop):
    wt = "/tmp/wt/" + lid
    cmd = demo_cmd(wt, lid)
    rc1, out1 = sh(cmd, wt)
    # (git stash is shared between worktrees: use a patch file instead)
    sh("git diff > /tmp/wt/%s.verify.diff && git apply -R /tmp/wt/%s.verify.diff" % (lid, lid), wt)
    rc0, out0 = sh(cmd, wt)
    sh("git apply /tmp/wt/%s.verify.diff" % lid, wt)
    rcp, outp = sh("/venv/bin/python -m pytest -q -p no:cacheprovider --timeout=900 --continue-on-collection-errors 2>&1 | tail -1", wt)
    print("demo with change rc=%d; without rc=%d; suite: %s" % (rc1, rc0, outp.strip()))
    ok = rc1 != 0 and rc0 == 0 and "1069 passed" in outp
    if not ok:
        print(out1[-800:]); print(out0[-800:])
        return 1
    d = os.path.join(VERIF, "seeded", name)
    os.makedirs(d, exist_ok=True)
    sh("git diff > %s/patch.diff" % d, wt)
    for f in glob.glob(os.path.join(wt, "demo_%s.*" % lid)):
        shutil.copy(f, d)
    meta = {"property": prop, "worktree_id": lid, "verified": {"demo_with_change_rc": rc1, "demo_without_change_rc": rc0,
            "suite_with_change": outp.strip()}, "demo_output_with_change": out1[-1500:]}
    mp = os.path.join(d, "meta.json")
    if os.path.exists(mp):
        old = json.load(open(mp)); old.update(meta); meta = old
    json.dump(meta, open(mp, "w"), indent=1)
    print("stored", d)
    return 0


def check(name, checks, scratch=False):
    d = os.path.join(VERIF, "seeded", name)
    patch = os.path.join(d, "patch.diff")
    if not os.path.exists(patch) and os.path.exists(patch + ".gz"):
        # large patches (regenerated tables) are stored compressed
        import gzip, tempfile as _tf
        fd, patch = _tf.mkstemp(prefix="seeded-", suffix=".diff")
        os.write(fd, gzip.open(os.path.join(d, "patch.diff.gz")).read())
        os.close(fd)
    seed = os.environ.get("SEEDED_SEED", "0")
    tier = os.environ.get("SEEDED_TIER", "quick")
    envp = ""
    tmp = None
    if scratch:
        import tempfile
        tmp = tempfile.mkdtemp(prefix="emb-seeded-")
        sh("rsync -a --exclude .git /repo/ %s/repo/" % tmp)
        rc, out = sh("patch -p1 -s < %s" % patch, tmp + "/repo")
        envp = "EMBOSS_REPO=%s/repo " % tmp
    else:
        rc, out = sh("git -C /repo status --porcelain")
        if out.strip():
            print("refusing: /repo has uncommitted changes:\n" + out); return 2
        rc, out = sh("git -C /repo apply %s" % patch)
    if rc != 0:
        print("patch does not apply:", out); return 2
    results = {}
    try:
        for c in checks:
            evf = os.path.join(VERIF, "evidence", c + ".json")
            saved = open(evf).read() if os.path.exists(evf) else None
            rc, out = sh("%sVERIF_SEED=%s ./vcheck %s --tier %s" % (envp, seed, c, tier), VERIF)
            if saved is not None:
                open(evf, "w").write(saved)
            mech = [l.strip() for l in out.splitlines() if l.strip().startswith("mechanism:")]
            results[c] = {"rc": rc, "caught": rc == 1 and "VIOLATION" in out, "mechanisms": mech[:6]}
            print(name, c, "CAUGHT" if results[c]["caught"] else "MISSED(rc=%d)" % rc, "; ".join(mech[:4]))
            if not results[c]["caught"]:
                print(out[-500:])
    finally:
        if scratch:
            shutil.rmtree(tmp, ignore_errors=True)
        else:
            sh("git -C /repo checkout -- .")
    mp = os.path.join(d, "meta.json")
    meta = json.load(open(mp)) if os.path.exists(mp) else {}
    meta.setdefault("check_results", {}).update(results)
    json.dump(meta, open(mp, "w"), indent=1)
    return 0


if __name__ == "__main__":
    if sys.argv[1] == "verify":
        sys.exit(verify(sys.argv[2], sys.argv[3], sys.argv[4]))
    sys.exit(check(sys.argv[2], sys.argv[3:], scratch=sys.argv[1] == "scratch"))
