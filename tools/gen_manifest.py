#!/venv/bin/python
"""Regenerates /verif/MANIFEST.json from the table below (keeps it valid)."""
import json
import os

HERE = os.path.dirname(os.path.dirname(os.path.abspath(__file__)))

ALL = ["C%02d" % i for i in range(1, 21)]

CHECKS = {
 "C07": dict(
  category="exploration",
  text="Compiler oracle: for every accepted module of the workload (identifier-shape generator: field names next to the names "
       "the generated views declare themselves, trailing underscores, has_ prefixes, names colliding under kCamelCase, "
       "namespaces, parameters, inline and nested types; semantic-generator modules; the testdata corpus with imports) the "
       "header(s) from the real back end plus a full-instantiation driver emitted from the final IR's names (explicit "
       "instantiation of every view class, member templates Equals / UncheckedEquals / TryToCopyFrom / WriteToString / "
       "UpdateFromText, every enumerator spelling and enum helper, a static_assert per compile-time constant against the IR value) "
       "are compiled with g++-12 and clang++-14 under -std=c++11/14/17, enum traits on and off. Upstream shapes that do not compile "
       "are known findings keyed by shape.",
  note="Explicit instantiation with ReadWriteContiguousBuffer (bits views: a 64-bit BitBlock) stands for 'instantiating every view'; "
       "quick rotates 2 of the 6 (compiler, -std) configurations per module, thorough uses all 6.",
  technique="compiler-as-oracle on full-instantiation drivers generated from the IR",
  design_ref="5/C07"),
 "C14": dict(
  category="exploration",
  text="Two-sided acceptance oracle by construction: modules composed of random realisable snippets that sit ON the documented "
       "boundaries (UInt/Int/Bcd of 1 and 64 bits, Float 32/64, enum fields at exactly maximum_bits, enum values at the edges of "
       "8-bit / 64-bit signed and unsigned ranges, maximum_bits 1 and 64, 64-bit bits, multi-dimensional and automatic arrays, "
       "explicit sizes, byte-order attributes incl. Null on one-byte fields and scoped $default, attributes in their allowed scopes, "
       "inline types) must be accepted by front end and back end; 70% of modules additionally contain exactly one snippet one step "
       "beyond a boundary (catalogue of 52 rules incl. reserved words sampled from compiler/front_end/reserved_words as field, "
       "type, enum-value and virtual-field names, and a missing byte order) and must be rejected without a crash.",
  note="Catalogue = my reading of the language reference, prelude.emb and the attribute tables; where the error points is not judged "
       "here (C13/C16).",
  technique="runtime acceptance monitoring with boundary-sitting positive class and one-step-beyond negative catalogue",
  design_ref="5/C14"),
 "C12": dict(
  category="exploration",
  text="Reference-model monitor: generated scope trees (main module, optional imported module, module-level types, subtypes "
       "nested up to three deep, parameters, fields with abbreviations, enum values, structure-typed fields) with planted "
       "references whose intended target is computed by the model's own resolver of the stated scoping rules (simple and dotted "
       "type names, imported names, enum values, fields, abbreviations, parameters, member paths); after the real front end ran up "
       "to type annotation every planted reference's Reference.canonical_name (matched by source position) equals the intended "
       "target, every definition's canonical name is unique and leads back to it through the real ir_util.find_object, and one "
       "injected fault per faulty module (missing name, duplicate in one scope, name visible from two scopes, abbreviation through "
       "a member path or from a sibling structure, enclosing structure's field, bare enum value) yields exactly the matching error.",
  note="Scoping rules as stated in the property; pipeline stopped before type annotation so later passes cannot mask name errors.",
  technique="runtime reference-model monitoring of symbol resolution with planted targets and injected faults",
  design_ref="5/C12"),
 "C13": dict(
  category="exploration",
  text="Acceptance oracle known by construction: a typed expression generator (integer / boolean / enum sorts over <= 8-bit "
       "sources and small constants) fills every expression position of a base module (offset, size, array length, enum value, "
       "condition, [requires] on field and structure, parameter arguments, virtual values, $max / $present / bound functions, "
       "?:) and must be accepted; 75% of cases break exactly one rule of a ~45-rule catalogue at one site and must be rejected, "
       "without crashing, with a non-synthetic error located inside the definition that contains the offending construct. "
       "Upstream gaps (enum values and enum-typed parameters are not type-checked, ordering on enums accepted, several crashes) "
       "are listed as known findings by rule / crash site.",
  note="Known findings are keyed by the broken rule or by (exception type, innermost repo frame).",
  technique="runtime acceptance monitoring with constructed positive class and single-rule negative catalogue",
  design_ref="5/C13"),
 "C15": dict(
  category="exploration",
  text="(a) planted random reference graphs (2-14 nodes, chains up to 110/200) over virtual fields, field locations, conditions, "
       "enum values, and import graphs over 2-5 files, with the expected verdict from an own iterative SCC: 'Dependency cycle' / "
       "'Import dependency cycle' iff a cycle exists, acyclic sets accepted; (b) post-condition monitor on the real "
       "dependency_checker._find_cycles (result == independent SCC of its argument graph) active during all compilations of the "
       "run; (c) order checker on every accepted structure (planted, semantic-generator and corpus modules): "
       "fields_in_dependency_order is a permutation, each field after the fields its location / condition / value mention, and "
       "equal to source order whenever source order is valid. Non-termination is decided by RecursionError or a 150 CPU-second "
       "budget (a 200-field chain needs ~13).",
  note="The equals-source-order clause is asserted only when source order is valid for the superset of mentions (any "
       "reference inside the field outside attributes); compiler crashes on non-planted inputs are C16's subject and skipped here.",
  technique="planted-graph differential oracle + wrapped-function post-condition monitor + IR order checker",
  design_ref="5/C15"),
 "C05": dict(
  category="exploration",
  text="Invariant at a hook: a post-condition wrapper on the real glue.process_ir walks every integer Expression node of every "
       "IR the front end returns (expression-heavy generated modules with 1..8-byte UInt/Int/Bcd variables, parameters, flags, "
       "constants at 2^8..2^32 edges, nested $max / ?: / products; semantic-generator modules; corpus) and evaluates it with an "
       "independent big-int evaluator under corner (<= 64) and random environments over the declared physical ranges, shared "
       "across occurrences and per field instance: min <= value <= max, value = remainder (mod modulus), constants exact, "
       "$upper_bound/$lower_bound equal their argument's inferred bounds, every run-time function node and its operands fit one "
       "64-bit type, and for expressions whose variables occur once under + - * $max the corner values attain both bounds "
       "(tightness). The C++ consequence (no signed overflow) is C04's UBSan workload.",
  note="Evaluator reads only operator names, constants and references of the IR (never the annotations); expressions containing "
       "builtins such as $is_statically_sized are skipped and counted.",
  technique="runtime invariant monitor on the IR at the process_ir boundary with an independent evaluator",
  design_ref="5/C05"),
 "C02": dict(
  category="exploration",
  text="Direct runtime harness over the real headers: UIntView / IntView / BcdView over OffsetBitBlock<BitBlock<...>> for EVERY "
       "(container 8..64, width, offset) triple (6672 triples x 3 types x 2 byte orders), FlagView at every bit, FloatView 32/64, "
       "EnumView over 8 underlying types at every width, views placed directly on whole BitBlocks; default, 8-aligned-buffer and "
       "EMBOSS_NO_OPTIMIZATIONS builds under ASan+UBSan; contents = zeros, ones, field lsb/msb only, all-but-field, all-but-sign, "
       "BCD-valid, random. Each printed observation (Ok, Read, ValueType width and signedness, CouldWriteValue/TryToWrite and "
       "the bytes afterwards) is judged by a pure-Python bit-slice decoder. The generated-code path for scalars at arbitrary "
       "offsets is exercised by C01's modules.",
  note="Triple space enumerated exhaustively, contents sampled (8 quick / 40 thorough per triple); x86-64 host only.",
  technique="exhaustive-configuration runtime harness on sanitizer builds + independent bit-slice oracle",
  design_ref="5/C02"),
 "C19": dict(
  category="exploration",
  text="Reference-model monitor: for generated enums (1-12 names, duplicate / negative / 64-bit-edge values, explicit or "
       "inferred is_signed, maximum_bits 1..64, enum_case at module / enum / value level with one or two spellings, namespaces, "
       "with and without enum traits, clang and g++) a driver prints std::is_signed and sizeof of the underlying type, the value of "
       "every enumerator spelling, and TryToGetEnumFromName / TryToGetNameFromEnum / EnumIsKnown / operator<< over probe names "
       "(declared, case-converted, prefixes, suffixes, lower case, empty, null) and probe values (declared +-1, 0, type min/max); "
       "compared with the model computed from the definition. Field behaviour of enums at every width is C02/C03.",
  note="operator<< of an unnamed value of an 8-bit enum (streams a char) is not judged: the property does not cover it.",
  technique="runtime differential monitoring of generated enum helpers against a model of the definition",
  design_ref="5/C19"),
 "C06": dict(
  category="exploration",
  text="Round-trip monitor inside an ASan+UBSan driver of the real generated code: for Ok views of generated modules (with "
       "[text_output] Skip/Emit marks, dynamic offsets, conditionals, nested aggregates, arrays incl. multi-dimensional, enums, "
       "floats, anonymous bits, parameters) and each of the 18 re-readable option sets (base 2/10/16 x digit grouping x "
       "{multi-line, multi-line+comments, single-line}): UpdateFromText(WriteToString(v)) into a zeroed same-size buffer succeeds, "
       "the new view is Ok and re-emits the identical text. Offline checker on single-line outputs: top-level field order vs the "
       "model's dependency relation, Skip fields absent, unmarked/Emit fields present. Partial output + junk text on non-Ok views "
       "feeds C04.",
  note="Text equality of the re-emitted output stands for 'fields read back equal'. The integer codec clause is exercised "
       "through every integer field (all bases, grouping) rather than by a separate exhaustive codec harness.",
  technique="runtime round-trip monitor + offline checker over emitted text on sanitizer builds",
  design_ref="5/C06"),
 "C20": dict(
  category="exploration",
  text="Reference-model + conservation monitor on recorded (a, b, op, result, a', b') tuples from the real generated Equals / "
       "TryToCopyFrom (ASan+UBSan builds): Equals vs the model's logical equality (presence pattern and every present physical "
       "field, recursively, element-wise; floats by IEEE ==; bits no field covers ignored) and symmetry, on pairs that are "
       "identical / differ in one covered bit / differ only in uncovered bits / differ in length / unrelated; TryToCopyFrom result, "
       "destination's first n bytes = source's, rest untouched, source untouched, destination Ok and Equals source; overlapping "
       "views inside one allocation against a memmove model.",
  note="Both views get the same parameter values; Equals is only invoked when both are Ok; Ok() disagreements are left to C01.",
  technique="runtime reference-model + byte-conservation monitor on sanitizer builds",
  design_ref="5/C20"),
 "C01": dict(
  category="exploration",
  text="Reference-model monitor: for generated modules (semantic generator: byte orders, enums, bits and anonymous bits, nested "
       "and parameterised structs, fixed/dynamic/multi-dimensional arrays, conditional fields, dynamic offsets, $next, virtual "
       "fields, aliases, [requires]) the real compiler emits the header, a driver emitted from the spec is built with ASan+UBSan "
       "and prints Ok/IsComplete/SizeIsKnown/size/has_x/x().Ok()/values/counts/elements for thousands of (parameters, exact-size "
       "buffer) cases biased to Ok structures, truncations, oversize and garbage; every line is compared with an independent "
       "three-valued reference interpreter (UNSPEC where the documents are silent). Plus a model-free prefix-monotonicity "
       "checker over every prefix length of every 4th buffer.",
  note="Trusted: vlib/refsem.py (my reading of the language reference), the spec renderer, clang. Size-knowledge that depends "
       "on unreadable conditions and counts of clipped arrays are UNSPEC.",
  technique="runtime differential monitoring of generated C++ views against an executable reference semantics + trace monotonicity checker",
  design_ref="5/C01"),
 "C03": dict(
  category="exploration",
  text="Conservation monitor on recorded (before, leaf, value, CouldWriteValue, TryToWrite, after, read-back) tuples from the "
       "real generated code under ASan+UBSan: accept/reject boundary against the model's exact range and [requires], "
       "Read()==v after success, (after XOR before) confined to the field's absolute bit mask (through nesting, anonymous bits "
       "and byte order), buffer untouched after failure; leaves include nested fields, array elements, aliases and add/subtract "
       "virtual fields; values at and just outside each range and at the 32/64-bit edges.",
  note="Bcd/enum/virtual argument narrowing happens in the driver's C++ cast and the narrowed value is judged; model abstains on "
       "null (absent) targets without static width.",
  technique="runtime conservation monitor (bit-mask oracle from the reference model) on sanitizer builds",
  design_ref="5/C03"),
 "C04": dict(
  category="exploration",
  text="Sanitizer oracle: every driver execution of the observation (incl. every prefix length), write, copy/equals and text "
       "families runs in a clang ASan+UBSan build (-fno-sanitize-recover, default and EMBOSS_NO_OPTIMIZATIONS) on exact-size heap "
       "buffers with EMBOSS_CHECK/DCHECK overridden to an attributable abort; a liveness canary must see a 1-byte over-read, a "
       "signed overflow and a tripped check or the run is inconclusive. Reports are keyed by (kind, message, first generated-code "
       "frame).",
  note="Red-zone ASan misses far/intra-buffer overreach (C03's mask monitor covers intra-buffer); UBSan 'undefined' group only.",
  technique="compiler sanitizers (ASan+UBSan) + runtime's own checks over hostile generated workloads, with liveness canary",
  design_ref="5/C04"),
 "C16": dict(
  category="exploration",
  text="Wrapper monitors on the real entry points (glue.parse_emboss_file, header_generator.generate_header, "
       "error.format_errors, the CLI helper emboss_front_end.parse_and_log_errors and real embossc processes) over thousands of "
       "hostile file sets per run: random characters, token soup, grammar-derived programs, truncated / text-mutated / "
       "semantically mutated corpus files (names, numbers at 2^31/2^63/2^64 edges, types, operators, attributes, parameters, "
       "virtual fields, nesting depth <= 40), multi-file import sets (missing, cyclic, self, broken), 100-290-field structs. Judged: "
       "no exception (bucketed by exception type + innermost repository frame), errors non-empty with non-empty groups, every "
       "message names a supplied file and a position inside it, renders with and without sources and colour, no synthetic "
       "'compiler bug' location, embossc exits 0/1 without traceback; non-termination decided by a CPU-seconds budget "
       "(ITIMER_VIRTUAL), not a wall clock. Genuine upstream crashes are listed in known_findings.json by mechanism.",
  note="Inputs within the property's practical bound; a firing 120 s wall-clock watchdog is inconclusive; known findings are matched "
       "by (exception type, innermost repo frame) or (message template), so a new crash site is still a VIOLATION.",
  technique="runtime monitors on entry points + message-shape checker, hostile generated inputs, CPU-budget watchdog",
  design_ref="5/C16"),
 "C17": dict(
  category="exploration",
  text="Offline equality checker over recorded outputs: fresh processes with different PYTHONHASHSEED each compile the whole "
       "source set (accepted corpus, truncated corpus hitting many parser states, semantic mutants, hand-written multi-error / "
       "ambiguous / multi-cycle / duplicate-attribute sets) through the real entry points and record IR JSON, header and rendered "
       "diagnostics; compared across seeds, against a same-seed repeat, an in-process repetition, a reversed-order process "
       "(up to reserved anonymous numbering), embossc vs emboss_front_end|emboss_codegen_cpp, import-directory order, and the "
       "table numbering of a freshly generated parser.",
  note="Outputs compared: IrDataSerializer.to_json text, header text, error.format_errors text, CLI stderr/exit status.",
  technique="recorded-output equality across hash seeds / processes / repetitions (offline trace checker)",
  design_ref="5/C17"),
 "C18": dict(
  category="exploration",
  text="Monitor at the boundary the two-program build uses: every IR obtained from the real front end (hand-written node-kind "
       "modules, corpus, accepted semantic mutants) is round-tripped through IrDataSerializer.to_json/from_json and compared with "
       "an own deep comparer over dataclass fields (set/unset, which_* selectors, lists, enums, >64-bit integers, SourceLocation "
       "flags); to_json idempotent through the round trip; header from the re-read IR byte-identical; real CLI split path vs "
       "embossc on a sample. IR field coverage (class.field populated) is measured against the whole ir_data schema.",
  note="Trusts the json module and the own comparer; only accepted sources yield IRs.",
  technique="round-trip monitor with independent deep comparer + CLI differential",
  design_ref="5/C18"),
 "C11": dict(
  category="exploration",
  text="Monitor around the real format_emb.format_emboss_parse_tree on thousands of parseable texts (programs derived from "
       "doc/grammar.md with random spacing/comments/docs, corpus, mutated corpus and format testdata) under random indent widths "
       "1..8: never raises; output tokenizes and parses; own length-strict token comparison (up to whitespace, blank lines, "
       "trailing blanks in comments/docs); raw IR from module_ir.build_ir equal without source positions; fmt(fmt(t)) == fmt(t); "
       "built-in sanity_check_format_result agrees with the own comparison; emboss-format CLI sample equals the in-process result "
       "and leaves the input untouched. Production coverage of the formatter is reported.",
  note="Trusts tokenizer/parser/build_ir (monitored by C08-C10); only parseable inputs are judged; anonymous-field numbering "
       "(a process-global counter) is renumbered by first appearance before IR comparison.",
  technique="runtime monitor around the formatter (round-trip, idempotence and IR-equality oracles)",
  design_ref="5/C11"),
 "C09": dict(
  category="exploration",
  text="Structural invariant checked on the two live Parser objects at a quiescent point: a lock-step product walk from state 0 "
       "of the parser embossc actually loads (parser.module_parser()/expression parser) and a parser freshly generated from "
       "module_ir.PRODUCTIONS + error_examples builds the state bijection and compares action kind, shift target, reduce "
       "production, error code, goto and default_errors for every reachable pair and every symbol (exhaustive over the finite "
       "tables, so it decides 'for all token sequences' for the table interpreter). Plus a differential execution monitor on "
       "sampled token sequences, and production-set / token-table equality with doc/grammar.md.",
  note="Assumes lr1.Parser.parse's behaviour is a function of (action, goto, default_errors) only; doc parsed by vlib/docgrammar.py.",
  technique="live-structure invariant (exhaustive automaton product walk) + differential execution monitor",
  design_ref="5/C09"),
 "C08": dict(
  category="exploration",
  text="Runs the real lr1.Grammar(...).parser() on thousands of random small CFGs (textbook LR(1)/non-LALR/ambiguous seeds, "
       "perturbations, LL(1)-by-construction, reduced and unreduced) and judges every string up to a length bound (trie walk) plus "
       "deeper derived sentences and token mutants against an independent Earley recogniser: accept/reject, returned tree is a "
       "derivation with the input as leaves, error index = longest viable prefix (reduced grammars), and a bounded two-derivation "
       "ambiguity finder vs conflicts == {}. The Emboss grammar itself is exercised with generated sentences and token mutants on a "
       "freshly generated parser.",
  note="Trusts vlib/earley.py; ambiguity search bounded to length 6; error-position clause only judged for reduced grammars; "
       "spurious conflicts on LR(1) grammars are counted, not judged (the property allows 'reports conflicts').",
  technique="runtime differential monitoring against an Earley reference model, exhaustive strings per small grammar",
  design_ref="5/C08"),
 "C10": dict(
  category="exploration",
  text="Post-condition monitor on the real tokenizer.tokenize over >=120k generated texts per quick run "
       "(token soup, random characters, glued atoms, indentation stress, corpus, mutated corpus, all Unicode line "
       "terminators): pure invariants (slice equality, coverage, order, newline tokens, Indent/Dedent balance) plus a "
       "differential oracle = independent longest-match tokenizer built from doc/grammar.md's pattern table, plus "
       "hand-written predicates for the language reference's name/number rules. Held-on-observed, not a proof.",
  note="Trusts doc/grammar.md's token table and the language reference as the specification; Python's re engine; "
       "line terminator set = str.splitlines' documented set (own splitter).",
  technique="runtime monitor (wrapped function post-condition) + differential reference tokenizer",
  design_ref="5/C10"),
}


# What was added after the first registration (workloads and oracles grown from seeded changes and sweeps).
ADDED = {
 "C01": "Later additions: a quarter of modules omit $default byte_order (one-byte fields through NullByteOrderer); 32/64-bit "
        "arithmetic and comparisons over 4/8-byte fields kept inside the 64-bit gate by interval arithmetic; $present() and "
        "$size_in_bytes as values; [requires] on constants; Max/MinSizeIn* constants observed (exact where static, bounds on every "
        "record); reports that are MORE known than the strict three-valued model (compiler folds from bounds) are accepted only "
        "if the ordinary comparison under 8 random completions of the unreadable leaves finds no difference.",
 "C03": "Later additions: bit fields of 24..63 bits; any narrow signed enum tag taints the case (listed finding).",
 "C04": "Later additions: hostile text input (boundary literals in every spelling aimed at real leaves, array indices and nested "
        "paths) through UpdateFromText on Ok and non-Ok views; modules without $default byte_order.",
 "C05": "Later additions: twin members (a.x * b.x), comparison operands fitting one 64-bit type, subexpressions below a "
        "compile-time constant are not run-time subexpressions (not judged for the 64-bit fit).",
 "C06": "Later additions: hostile text input under UBSan; encoder emits INT_MIN and extreme doubles.",
 "C07": "Later additions: 'constants' modules (constants, folded expressions, tag == c conditions, enumerators and constant-"
        "condition ?: at the 2^k edges) with static_asserts on enumerators too.",
 "C12": "Later additions: the import alias is drawn from the field / abbreviation / parameter name pool, so a bare name can be "
        "visible both locally and as an alias (must be ambiguous).",
 "C13": "Later additions: a second enum with the same last name component (Sub.Ea next to Ea) in every two-enum rule.",
 "C14": "Later additions: explicit-width sweep (type x container x field size x explicit width incl. 0).",
 "C15": "Later additions: planted nodes that are fields of a parameterised type whose argument mentions their successors.",
 "C16": "Later additions: a synthetic ('compiler bug') location is classified by the source text it disowns, `$next` being "
        "user-written; edge-location workload (starts / sizes / $next summing past 2^64).",
 "C17": "Later additions: in-process repetition is its own child; children with different histories are compared up to reserved "
        "anonymous numbering, same-history children byte for byte; crash texts compared by exception type and site only.",
 "C18": "Later additions: deep / wide modules (150-field $next runs, 120-term chains, 45-deep nesting, 14-level subtypes).",
 "C19": "Later additions: enum values at the 2^k edges of the C++ integer types.",
 "C20": "Later additions: overlapping-copy cases classified by the source sub-range.",
}


def main():
    checks = []
    for pid in ALL:
        if pid not in CHECKS:
            continue
        c = CHECKS[pid]
        checks.append({
            "property_id": pid,
            "quick_cmd": "./vcheck %s --tier quick" % pid,
            "thorough_cmd": "./vcheck %s --tier thorough" % pid,
            "evidence_file": "evidence/%s.json" % pid,
            "replay_cmd_template": "./vcheck %s --replay {path}" % pid,
            "engine": "vcheck",
            "level_claimed": {"category": c["category"], "text": c["text"] + ((" " + ADDED[pid]) if pid in ADDED else ""),
                              "design_ref": c["design_ref"]},
            "level_note": c["note"],
            "technique": c["technique"],
        })
    manifest = {
        "version": 1,
        "setup_cmd": "mkdir -p evidence replays && /venv/bin/python -m compileall -q vlib >/dev/null 2>&1; true",
        "hooks": {
            "guard": "EMBOSS_VERIF",
            "enable": "no source hooks: monitors wrap module attributes at run time and C++ drivers use -D overrides",
            "baseline_off_cmd": "cd /repo && /venv/bin/python -m pytest -ra -q -p no:cacheprovider --timeout=900 --continue-on-collection-errors",
            "source_commits": [],
            "add_only": True,
        },
        "engines": [{"name": "vcheck", "path": "vcheck", "serves_properties": sorted(CHECKS),
                     "kind_free_text": "runtime monitors, reference-model differential oracles, sanitizer-built C++ drivers"}],
        "checks": checks,
        "not_applicable": [{"property_id": p, "reason": "check not built yet (work in progress; planned in DESIGN.md section 5)"}
                           for p in ALL if p not in CHECKS],
        "notes": "See DESIGN.md. Exit 0 = held on what was observed, 1 = VIOLATION, 2 = INCONCLUSIVE (monitor not reached).",
    }
    with open(os.path.join(HERE, "MANIFEST.json"), "w") as f:
        json.dump(manifest, f, indent=1)
    print("wrote MANIFEST.json with %d checks" % len(checks))


if __name__ == "__main__":
    main()
