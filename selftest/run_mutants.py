#!/venv/bin/python
"""Applies each deliberate break of selftest/mutants.json (textual replace in
one file) to a scratch copy of /repo (outside /repo and /verif), runs the named
checks with EMBOSS_REPO pointing at the copy, and reports whether they fired.

usage: run_mutants.py [--only NAME_SUBSTR] [--prop C10] [--tier quick] [--pytest]
Evidence/replay files written during these runs are restored afterwards."""

import argparse
import json
import os
import shutil
import subprocess
import sys
import tempfile

HERE = os.path.dirname(os.path.abspath(__file__))
VERIF = os.path.dirname(HERE)


def main():
    ap = argparse.ArgumentParser()
    ap.add_argument("--only", default=None)
    ap.add_argument("--prop", default=None)
    ap.add_argument("--tier", default="quick")
    ap.add_argument("--pytest", action="store_true", help="also run the pinned suite on the mutant")
    ap.add_argument("--seed", default="0")
    ns = ap.parse_args()
    with open(os.path.join(HERE, "mutants.json")) as f:
        mutants = json.load(f)
    results = []
    for m in mutants:
        if ns.only and ns.only not in m["name"]:
            continue
        if ns.prop and ns.prop not in m["checks"]:
            continue
        tmp = tempfile.mkdtemp(prefix="emb-mut-")
        try:
            repo = os.path.join(tmp, "repo")
            subprocess.check_call(["rsync", "-a", "--exclude", ".git", "/repo/", repo + "/"])
            ok_apply = True
            for ed in m["edits"]:
                p = os.path.join(repo, ed["file"])
                s = open(p).read()
                if s.count(ed["old"]) != 1:
                    print("MUTANT %s: pattern occurs %d times in %s" % (m["name"], s.count(ed["old"]), ed["file"]))
                    ok_apply = False
                    break
                open(p, "w").write(s.replace(ed["old"], ed["new"]))
            if not ok_apply:
                results.append((m["name"], "APPLY-FAILED", ""))
                continue
            env = dict(os.environ, EMBOSS_REPO=repo, VERIF_SEED=ns.seed)
            if ns.pytest:
                r = subprocess.run(["/venv/bin/python", "-m", "pytest", "-q", "-p", "no:cacheprovider",
                                    "--timeout=900", "--continue-on-collection-errors"], cwd=repo, env=env, capture_output=True, text=True)
                tail = r.stdout.strip().splitlines()[-1] if r.stdout.strip() else ""
                print("MUTANT %s: pinned suite rc=%d %s" % (m["name"], r.returncode, tail))
            for chk in m["checks"]:
                if ns.prop and chk != ns.prop:
                    continue
                evf = os.path.join(VERIF, "evidence", chk + ".json")
                saved = open(evf).read() if os.path.exists(evf) else None
                r = subprocess.run([os.path.join(VERIF, "vcheck"), chk, "--tier", ns.tier], env=env,
                                   capture_output=True, text=True)
                if saved is not None:
                    open(evf, "w").write(saved)
                viol = [l for l in r.stdout.splitlines() if l.startswith("VIOLATION")]
                mech = [l.strip() for l in r.stdout.splitlines() if l.strip().startswith("mechanism:")]
                status = "CAUGHT" if (r.returncode == 1 and viol) else "MISSED(rc=%d)" % r.returncode
                print("MUTANT %-40s %s %s %s" % (m["name"], chk, status, "; ".join(mech[:3])))
                if status != "CAUGHT":
                    print(r.stdout[-600:])
                    print(r.stderr[-600:])
                results.append((m["name"], chk, status))
        finally:
            shutil.rmtree(tmp, ignore_errors=True)
    missed = [r for r in results if r[2] != "CAUGHT"]
    print("SUMMARY: %d runs, %d missed" % (len(results), len(missed)))
    return 1 if missed else 0


if __name__ == "__main__":
    sys.exit(main())
