"""Reference interpreter for the Emboss language subset of vlib.embspec: what a
view of structure S with parameters p over bytes b reports, according to the
language reference.  Three-valued: a Python value, UNKNOWN, or UNSPEC (the
documents are silent; taints whatever is computed from it)."""

import struct as _struct


class _Sentinel(object):
    def __init__(self, n):
        self.n = n

    def __repr__(self):
        return self.n


UNKNOWN = _Sentinel("UNKNOWN")
UNSPEC = _Sentinel("UNSPEC")


def known(v):
    return v is not UNKNOWN and v is not UNSPEC


# ---------------------------------------------------------------------------
# Storage
# ---------------------------------------------------------------------------

class ByteStore(object):
    """`size` available bytes of buf starting at absolute offset `off`;
    null=True models a default-constructed (absent) storage."""

    def __init__(self, buf, off, size, null=False):
        self.buf = buf
        self.off = off
        self.size = max(0, size)
        self.null = null

    def sub(self, start, size):
        if self.null:
            return ByteStore(self.buf, 0, 0, True)
        avail = 0 if self.size < start else min(size, self.size - start)
        return ByteStore(self.buf, self.off + start, avail)

    def bits(self, order):
        """Absolute bit addresses, logical bit 0 first, of this store read as
        one integer in byte order `order`."""
        n = self.size
        out = []
        for k in range(n * 8):
            byte = k // 8 if order == "LittleEndian" or n == 1 else n - 1 - k // 8
            out.append((self.off + byte) * 8 + k % 8)
        return out


class BitStore(object):
    """addrs: absolute bit addresses (logical bit 0 first) that are available."""

    def __init__(self, buf, addrs, null=False):
        self.buf = buf
        self.addrs = addrs
        self.null = null

    @property
    def size(self):
        return len(self.addrs)

    def sub(self, start, size):
        if self.null:
            return BitStore(self.buf, [], True)
        if len(self.addrs) < start:
            return BitStore(self.buf, [])
        return BitStore(self.buf, self.addrs[start:start + size])


def read_bits(buf, addrs):
    v = 0
    for k, a in enumerate(addrs):
        if (buf[a >> 3] >> (a & 7)) & 1:
            v |= 1 << k
    return v


def write_bits(buf, addrs, v):
    for k, a in enumerate(addrs):
        if (v >> k) & 1:
            buf[a >> 3] |= 1 << (a & 7)
        else:
            buf[a >> 3] &= ~(1 << (a & 7)) & 0xFF


# ---------------------------------------------------------------------------
# Static helpers
# ---------------------------------------------------------------------------

def const_value(e):
    """Value of an expression with no references, or None."""
    k = e[0]
    if k == "num":
        return e[1]
    if k == "bool":
        return e[1]
    if k == "op":
        vals = [const_value(a) for a in e[2]]
        if any(v is None for v in vals):
            return None
        r = apply_op(e[1], vals)
        return r if known(r) else None
    return None


def static_size(t, unit):
    """Size of a type in `unit`-bit units when it is a compile-time constant,
    else None.  unit: 8 for struct context, 1 for bits context."""
    if t.kind in ("uint", "int", "bcd", "flag", "float", "enum"):
        if t.kind == "flag" and t.bits is None:
            return 1 if unit == 1 else None
        if t.bits is None:
            return None
        return t.bits // unit if t.bits % unit == 0 else None
    if t.kind == "struct":
        s = static_struct_size(t.ref)
        if s is None:
            return None
        bits = s * t.ref.unit
        return bits // unit if bits % unit == 0 else None
    if t.kind == "array":
        es = static_size(t.elem, unit)
        if es is None or t.count is None:
            return None
        c = const_value(t.count)
        return None if c is None else es * c
    return None


def static_struct_size(s):
    """Size when it is a compile-time constant (the bound analysis gives
    min == max): every location constant, and no conditional field extends
    past the unconditional ones."""
    best = 0
    cond_best = 0
    prev_end = None
    for f in s.fields:
        if f.kind == "virtual":
            continue
        a = prev_end if f.start == ("ref", ["$next"]) else const_value(f.start)
        b = const_value(f.size)
        if a is None or b is None:
            return None
        prev_end = a + b
        if f.cond is not None:
            cond_best = max(cond_best, a + b)
        else:
            best = max(best, a + b)
    if cond_best > best:
        return None
    return best


def compiler_fixed_size(s):
    """What the compiler calls the fixed size of a structure: the largest end
    of any physical field when every location is constant, *whatever the
    fields' conditions* (attribute_checker._fixed_size_of_struct_or_bits).  A
    field holding such a structure must have exactly this size, even though the
    structure's run-time size may be smaller."""
    best = 0
    prev_end = None
    for f in s.fields:
        if f.kind == "virtual":
            continue
        a = prev_end if f.start == ("ref", ["$next"]) else const_value(f.start)
        b = const_value(f.size)
        if a is None or b is None:
            return None
        prev_end = a + b
        best = max(best, a + b)
    return best


def apply_op(op, vals):
    """Strict operators over known values, documented short-circuit for && ||."""
    if op == "&&":
        if any(v is False for v in vals):
            return False
        if any(v is UNSPEC for v in vals):
            return UNSPEC
        if any(v is UNKNOWN for v in vals):
            return UNKNOWN
        return True
    if op == "||":
        if any(v is True for v in vals):
            return True
        if any(v is UNSPEC for v in vals):
            return UNSPEC
        if any(v is UNKNOWN for v in vals):
            return UNKNOWN
        return False
    if op == "?:":
        c = vals[0]
        if not known(c):
            return c
        return vals[1] if c else vals[2]
    if any(v is UNSPEC for v in vals):
        return UNSPEC
    if any(v is UNKNOWN for v in vals):
        return UNKNOWN
    a = vals[0]
    if op == "+":
        return a + vals[1]
    if op == "-":
        return a - vals[1]
    if op == "*":
        return a * vals[1]
    if op == "==":
        return a == vals[1]
    if op == "!=":
        return a != vals[1]
    if op == "<":
        return a < vals[1]
    if op == "<=":
        return a <= vals[1]
    if op == ">":
        return a > vals[1]
    if op == ">=":
        return a >= vals[1]
    if op == "$max":
        return max(vals)
    raise ValueError(op)


def decode_scalar(t, raw, nbits):
    """(valid, value) of raw (unsigned, nbits wide) as scalar type t."""
    k = t.kind
    if k == "uint":
        return True, raw
    if k == "int":
        return True, raw - (1 << nbits) if raw >> (nbits - 1) & 1 else raw
    if k == "flag":
        return True, bool(raw & 1)
    if k == "bcd":
        v, mul, ok = 0, 1, True
        r = raw
        for _ in range((nbits + 3) // 4):
            d = r & 0xF
            if d > 9:
                ok = False
            v += d * mul
            mul *= 10
            r >>= 4
        return ok, v
    if k == "float":
        return True, raw  # compared as bit pattern
    if k == "enum":
        if t.ref.signed() and (raw >> (nbits - 1)) & 1:
            return True, raw - (1 << nbits)
        return True, raw
    raise ValueError(k)


def encode_scalar(t, value, nbits):
    """raw bits for value, or None when not representable."""
    k = t.kind
    if k == "uint":
        return value if 0 <= value < (1 << nbits) else None
    if k == "int":
        return value & ((1 << nbits) - 1) if -(1 << (nbits - 1)) <= value < (1 << (nbits - 1)) else None
    if k == "flag":
        return 1 if value else 0
    if k == "bcd":
        if value < 0:
            return None
        raw, shift, v = 0, 0, value
        while v:
            raw |= (v % 10) << shift
            v //= 10
            shift += 4
        return raw if raw < (1 << nbits) else None
    if k == "float":
        return value if 0 <= value < (1 << nbits) else None
    if k == "enum":
        if t.ref.signed():
            return value & ((1 << nbits) - 1) if -(1 << (nbits - 1)) <= value < (1 << (nbits - 1)) else None
        return value if 0 <= value < (1 << nbits) else None
    raise ValueError(k)


def scalar_range(t, nbits):
    k = t.kind
    if k == "uint" or k == "float":
        return 0, (1 << nbits) - 1
    if k == "int" or (k == "enum" and t.ref.signed()):
        return -(1 << (nbits - 1)), (1 << (nbits - 1)) - 1
    if k == "enum":
        return 0, (1 << nbits) - 1
    if k == "flag":
        return 0, 1
    if k == "bcd":
        return 0, 10 ** (nbits // 4) * 2 ** (nbits % 4) - 1
    raise ValueError(k)


# ---------------------------------------------------------------------------
# Views
# ---------------------------------------------------------------------------

class ScalarView(object):
    def __init__(self, module, t, store, nbits_expected, order, requires=None, scope=None):
        self.t = t
        self.store = store
        self.nbits = nbits_expected
        self.order = order
        self.requires = requires
        self.scope = scope
        self.module = module

    def addrs(self):
        if isinstance(self.store, BitStore):
            return self.store.addrs
        return self.store.bits(self.order)

    def is_complete(self):
        if self.store.null or self.nbits is None or self.nbits <= 0:
            return False
        return len(self.addrs()) == self.nbits

    def raw(self):
        return read_bits(self.store.buf, self.addrs())

    def read(self):
        """(ok, value) ; value meaningful when ok."""
        if not self.is_complete():
            return False, None
        valid, v = decode_scalar(self.t, self.raw(), self.nbits)
        if not valid:
            return False, v
        if self.requires is not None:
            r = self.scope.eval(self.requires, this=v)
            if r is UNSPEC:
                return UNSPEC, v
            if r is not True:
                return False, v
        return True, v

    def ok(self):
        return self.read()[0]


class ArrayView(object):
    def __init__(self, module, t, store, unit, order, scope, requested_size):
        self.module, self.t, self.store, self.unit, self.order, self.scope = module, t, store, unit, order, scope
        self.requested = requested_size

    def elem_size(self):
        return static_size(self.t.elem, self.unit)

    def count(self):
        es = self.elem_size()
        if es and isinstance(self.store, BitStore) and (self.store.null or self.store.size != self.requested):
            # an array inside a `bits` block that is not readable (container cut off, absent or not locatable): the
            # reference does not say what its element count is (the implementation answers the declared count in
            # some of these situations and 0 in others)
            return UNSPEC
        if self.store.null or not es:
            return UNKNOWN
        if self.store.size != self.requested:
            return UNSPEC  # array bytes not all inside the buffer
        return self.store.size // es

    def element(self, i):
        es = self.elem_size()
        return make_view(self.module, self.t.elem, self.store.sub(i * es, es), self.unit, self.order, self.scope, es, None)

    def is_complete(self):
        if isinstance(self.store, BitStore) and self.store.size != self.requested:
            return False  # inside a `bits` whose container is not fully in the buffer: no bit is available
        return not self.store.null

    def ok(self):
        c = self.count()
        if not known(c):
            return False if c is UNKNOWN else UNSPEC
        for i in range(c):
            o = self.element(i).ok()
            if o is not True:
                return o
        return True


def make_view(module, t, store, unit, order, scope, requested_size, requires, args_scope=None):
    """View of a value of type t over `store` (already the field's bytes/bits)."""
    if t.kind == "array":
        return ArrayView(module, t, store, unit, order, scope, requested_size)
    if t.kind == "struct":
        params = {}
        params_known = True
        for p, a in zip(t.ref.params, t.args):
            v = (args_scope or scope).eval(a)
            params[p.name] = v
            if not known(v):
                params_known = False
        if not params_known:
            store = ByteStore(store.buf, 0, 0, True) if isinstance(store, ByteStore) else BitStore(store.buf, [], True)
        if store.null:
            # an absent (or not locatable, or not parameterisable) aggregate is
            # not a view of anything: nothing can be read through it, not even
            # values that only depend on its parameters
            params = {k: UNKNOWN for k in params}
        if t.ref.kind == "bits" and isinstance(store, ByteStore):
            # a bits type in a byte-oriented field: the field's bytes, read in
            # the field's byte order, are the container
            if store.null:
                bstore = BitStore(store.buf, [], True)
            elif store.size != requested_size:
                bstore = BitStore(store.buf, [])  # incomplete container: no bit is readable
                bstore.incomplete_container = True
            else:
                bstore = BitStore(store.buf, store.bits(order))
            return StructView(module, t.ref, params, bstore)
        return StructView(module, t.ref, params, store)
    nbits = t.bits if t.bits is not None else (requested_size * unit if requested_size is not None else None)
    return ScalarView(module, t, store, nbits, order, requires, scope)


class Completion(object):
    """Evaluation mode in which every expression leaf the strict semantics
    cannot read (missing bytes, absent field, failed [requires], unknown
    parameter) takes an arbitrary in-range value of its type.  A view may
    report something as known although a leaf is unreadable when the value
    does not depend on that leaf (the compiler folds `x * 0`, `c ? 5 : 5`,
    `$max(x, 7) <= 1` from its bounds); such a report is right iff it equals
    the value under every completion."""

    def __init__(self, rng):
        self.rng = rng
        self.memo = {}

    def leaf(self, key, lo, hi, extra=()):
        if key not in self.memo:
            r = self.rng
            cands = [lo, hi, max(lo, min(hi, 0)), max(lo, min(hi, 1)), r.randint(lo, hi), r.randint(lo, hi),
                     max(lo, min(hi, r.randint(0, 16))), max(lo, min(hi, r.randint(0, 16))),
                     max(lo, min(hi, r.randint(-4, 300)))] + [x for x in extra if lo <= x <= hi]
            self.memo[key] = r.choice(cands)
        return self.memo[key]


COMPLETION = None


def _complete_scalar(view, sname, fname):
    c = COMPLETION
    t = view.t
    nbits = view.nbits or 8
    if t.kind == "float":
        return UNSPEC
    lo, hi = scalar_range(t, nbits)
    store = view.store
    where = getattr(store, "off", None) if not store.null else None
    if where is None and not store.null and getattr(store, "addrs", None):
        where = store.addrs[0]
    key = (sname, fname, where)
    if t.kind == "flag":
        return bool(c.leaf(key, 0, 1))
    extra = [v for _n, v in t.ref.values] if t.kind == "enum" else ()
    return c.leaf(key, lo, hi, extra)


class StructView(object):
    def __init__(self, module, s, params, store):
        self.module = module
        self.s = s
        self.params = params
        self.store = store
        self._memo = {}
        self._busy = set()

    # -- expression evaluation ------------------------------------------------
    def eval(self, e, this=None):
        k = e[0]
        if k == "num" or k == "bool":
            return e[1]
        if k == "enum":
            for en in self.module.enums:
                if en.name == e[1]:
                    return dict(en.values)[e[2]]
            raise KeyError(e[1])
        if k == "ref":
            return self.eval_ref(e[1], this)
        op, args = e[1], e[2]
        if op == "$present":
            return self.has(self.s.field(args[0][1][0])) if len(args[0][1]) == 1 else self._present_path(args[0][1])
        if op in ("&&", "||"):
            return apply_op(op, [self.eval(a, this) for a in args])
        if op == "?:":
            c = self.eval(args[0], this)
            if not known(c):
                return c
            return self.eval(args[1] if c else args[2], this)
        return apply_op(op, [self.eval(a, this) for a in args])

    def _present_path(self, path):
        v = self
        for name in path[:-1]:
            sub = v.field_view(v.s.field(name))
            if not isinstance(sub, StructView):
                return UNKNOWN
            v = sub
        return v.has(v.s.field(path[-1]))

    def eval_ref(self, path, this=None, top=False):
        """`top`: the value is asked for as the field's own observation (not as
        a leaf of another expression): presence and [requires] apply strictly
        even in completion mode."""
        name = path[0]
        if name == "this":
            return this if this is not None else UNSPEC
        if name in ("$size_in_bytes", "$size_in_bits"):
            return self.size()
        if name in self.params and len(path) == 1:
            v = self.params[name]
            if v is UNKNOWN and COMPLETION is not None:
                for p in self.s.params:
                    if p.name == name:
                        if p.kind == "enum":
                            return COMPLETION.leaf((self.s.name, name, "param"), 0, 255, [x for _n, x in p.enum.values])
                        lo, hi = (0, (1 << p.bits) - 1) if p.kind == "uint" else (-(1 << (p.bits - 1)), (1 << (p.bits - 1)) - 1)
                        return COMPLETION.leaf((self.s.name, name, "param"), lo, hi)
            return v
        f = self.s.field(name)
        if f is None:
            raise KeyError("no field %r in %s" % (name, self.s.name))
        key = ("val", f.name, tuple(path[1:]), top)
        if key in self._memo:
            return self._memo[key]
        if key in self._busy:
            return UNSPEC
        self._busy.add(key)
        try:
            r = self._eval_ref(f, path, top)
        finally:
            self._busy.discard(key)
        self._memo[key] = r
        return r

    def _eval_ref(self, f, path, top=False):
        h = self.has(f)
        if h is UNSPEC:
            return UNSPEC
        if h is not True and (COMPLETION is None or top):
            return UNKNOWN
        if f.kind == "virtual":
            v = self.eval(f.expr)
            if len(path) > 1:
                return UNSPEC
            if known(v) and f.requires is not None and (COMPLETION is None or top):
                r = self.eval(f.requires, this=v)
                if r is not True:
                    return UNKNOWN if r is not UNSPEC else UNSPEC
            return v
        view = self.field_view(f)
        if view is UNSPEC:
            return UNSPEC
        if len(path) > 1:
            if not isinstance(view, StructView):
                return UNSPEC
            if view.store.null and COMPLETION is None:
                return UNKNOWN
            return view.eval_ref(path[1:])
        if isinstance(view, ScalarView):
            ok, v = view.read()
            if ok is UNSPEC:
                return UNSPEC
            if ok is not True and COMPLETION is not None:
                return _complete_scalar(view, self.s.name, f.name)
            return v if ok else UNKNOWN
        return UNSPEC

    # -- fields ------------------------------------------------------------------
    def has(self, f):
        key = ("has", f.name)
        if key in self._memo:
            return self._memo[key]
        if key in self._busy:
            return UNSPEC
        self._busy.add(key)
        try:
            parent = self._anon_parent(f)
            r = True
            if parent is not None and parent.cond is not None:
                r = self.eval(parent.cond)
            if f.cond is not None:
                r = apply_op("&&", [r, self.eval(f.cond)])
        finally:
            self._busy.discard(key)
        self._memo[key] = r
        return r

    def _anon_parent(self, f):
        for g in self.s.fields:
            if g.kind == "anon" and f in g.anon_bits.fields:
                return g
        return None

    def location(self, f):
        """(start, size) in this structure's units; each may be UNKNOWN.
        `$next` is the end (start + size) of the previous physical field of the
        same body, whatever that field's condition."""
        return self._eval_loc(f, f.start), self._eval_loc(f, f.size)

    def _eval_loc(self, f, e):
        if e == ("ref", ["$next"]):
            prev = None
            for g in self.s.fields:
                if g is f:
                    break
                if g.kind != "virtual":
                    prev = g
            if prev is None:
                return UNSPEC
            a, b = self.location(prev)
            return apply_op("+", [a, b])
        if e[0] == "op":
            if e[1] == "?:":
                c = self._eval_loc(f, e[2][0])
                if not known(c):
                    return c
                return self._eval_loc(f, e[2][1] if c else e[2][2])
            if e[1] != "$present":
                return apply_op(e[1], [self._eval_loc(f, a) for a in e[2]])
        return self.eval(e)

    def field_order(self, f):
        return f.byte_order or self.module.byte_order

    def field_view(self, f):
        """View object of a physical field (null-store view when absent)."""
        key = ("view", f.name)
        if key in self._memo:
            return self._memo[key]
        parent = self._anon_parent(f)
        if parent is not None:
            cont = self._anon_container(parent)
            r = cont.field_view(f) if cont is not None else self._null_view(f, 1)
        else:
            r = self._field_view(f, self.store, self.s.unit)
        self._memo[key] = r
        return r

    def _anon_container(self, parent):
        key = ("anon", id(parent))
        if key not in self._memo:
            h = True if parent.cond is None else self.eval(parent.cond)
            start, size = self.location(parent)
            if h is not True or not known(start) or not known(size) or start < 0 or size < 0:
                self._memo[key] = None
            else:
                st = self.store.sub(start, size)
                if st.size != size:
                    b = BitStore(st.buf, [])
                else:
                    b = BitStore(st.buf, st.bits(parent.byte_order or self.module.byte_order))
                v = StructView(self.module, parent.anon_bits, self.params, b)
                v.outer = self
                self._memo[key] = v
        return self._memo[key]

    def _null_view(self, f, unit):
        null = ByteStore(self.store.buf, 0, 0, True) if unit == 8 else BitStore(self.store.buf, [], True)
        return make_view(self.module, f.type, null, unit, self.field_order(f), self, const_value(f.size), f.requires)

    def _field_view(self, f, store, unit):
        h = self.has(f)
        start, size = self.location(f)
        if h is UNSPEC or start is UNSPEC or size is UNSPEC:
            return UNSPEC
        if h is not True or not known(start) or not known(size) or start < 0 or size < 0:
            return self._null_view(f, unit)
        return make_view(self.module, f.type, store.sub(start, size), unit, self.field_order(f), self, size, f.requires)

    # scope chaining for anonymous bits: names of the enclosing struct
    def __getattr__(self, name):
        raise AttributeError(name)

    # -- structure-level observations ---------------------------------------------
    def size(self):
        if "size" in self._memo:
            return self._memo["size"]
        st = static_struct_size(self.s)
        if st is not None:
            self._memo["size"] = st
            return st
        if "size" in self._busy:
            return UNSPEC
        self._busy.add("size")
        best = 0
        result = None
        try:
            for f in self.s.fields:
                if f.kind == "virtual":
                    continue
                h = True if f.cond is None else self.eval(f.cond)
                if h is UNSPEC:
                    result = UNSPEC
                    continue
                if h is UNKNOWN:
                    if result is None:
                        result = UNKNOWN
                    continue
                if h:
                    a, b = self.location(f)
                    if a is UNSPEC or b is UNSPEC:
                        result = UNSPEC
                    elif not known(a) or not known(b):
                        if result is None:
                            result = UNKNOWN
                    else:
                        best = max(best, a + b)
        finally:
            self._busy.discard("size")
        r = best if result is None else result
        self._memo["size"] = r
        return r

    def taints_parent(self):
        return False

    def size_determined(self):
        """The size when it is the same whatever the unknown conditions turn
        out to be (None-like UNKNOWN otherwise)."""
        sz = self.size()
        if sz is not UNKNOWN:
            return sz
        definite = 0
        optional = 0
        for f in self.s.fields:
            if f.kind == "virtual":
                continue
            h = True if f.cond is None else self.eval(f.cond)
            if h is False:
                continue
            a, b = self.location(f)
            if not known(a) or not known(b) or h is UNSPEC:
                return UNKNOWN
            if h is True:
                definite = max(definite, a + b)
            else:
                optional = max(optional, a + b)
        return definite if optional <= definite else UNKNOWN

    def is_complete(self):
        if self.store.null:
            return False
        sz = self.size()
        if sz is UNKNOWN:
            # Whether a view reports a size whose defining conditions are not
            # all readable is not specified (the compiler may know it from its
            # bounds).  But a size is never smaller than the end of a field
            # that is definitely present.
            lower = 0
            for f in self.s.fields:
                if f.kind == "virtual":
                    continue
                if (True if f.cond is None else self.eval(f.cond)) is True:
                    a, b = self.location(f)
                    if known(a) and known(b):
                        lower = max(lower, a + b)
            return False if lower > self.store.size else UNSPEC
        if sz is UNSPEC:
            return UNSPEC
        if sz is UNKNOWN:
            return False
        if getattr(self.store, "incomplete_container", False):
            return False
        return self.store.size >= sz and sz >= 0

    def ok(self):
        c = self.is_complete()
        if c is not True:
            return c
        for v in self.params.values():
            if not known(v):
                return False
        for f in self.s.all_named_fields():
            h = self.has(f)
            if h is UNSPEC:
                return UNSPEC
            if h is UNKNOWN:
                return False
            if h:
                o = self.field_ok(f)
                if o is not True:
                    return o
        if self.s.requires is not None:
            r = self.eval(self.s.requires)
            if r is UNSPEC:
                return UNSPEC
            if r is not True:
                return False
        return True

    def field_ok(self, f):
        if f.kind == "virtual":
            v = self.eval_ref([f.name], top=True)
            if v is UNSPEC:
                return UNSPEC
            return known(v)
        view = self.field_view(f)
        if view is UNSPEC:
            return UNSPEC
        return view.ok()


class _AnonScope(object):
    pass


def _patch_anon_scope():
    """Expressions inside an anonymous bits block may name fields of the
    enclosing struct (and vice versa, as they are hoisted): route unknown
    names to the outer view."""
    orig_field = StructView.eval_ref

    def eval_ref(self, path, this=None, top=False):
        outer = getattr(self, "outer", None)
        if outer is not None and path[0] not in ("this", "$size_in_bits", "$size_in_bytes") and \
                self.s.field(path[0]) is None:
            return outer.eval_ref(path, this, top)
        return orig_field(self, path, this, top)

    StructView.eval_ref = eval_ref


_patch_anon_scope()


def view(module, struct_name, params, data):
    s = module.struct(struct_name)
    buf = data if isinstance(data, bytearray) else bytearray(data)
    return StructView(module, s, dict(params), ByteStore(buf, 0, len(buf)))


# ---------------------------------------------------------------------------
# Encoder: fill a buffer so that many structures are Ok (workload helper)
# ---------------------------------------------------------------------------

def _pick_value(rng, view):
    t, nb = view.t, view.nbits
    lo, hi = scalar_range(t, nb)
    if t.kind == "enum":
        vals = [v for _n, v in t.ref.values if lo <= v <= hi]
        if vals and rng.random() < 0.8:
            return rng.choice(vals)
        return rng.randint(lo, hi)
    if t.kind == "flag":
        return rng.random() < 0.5
    if t.kind == "float":
        return rng.choice([0, 0, 1 << (nb - 1), 1 << (nb - 1), rng.getrandbits(nb),
                           (0x7f800000 if nb == 32 else 0x7ff0000000000000),
                           (0x7fc00000 if nb == 32 else 0x7ff8000000000000),  # quiet NaN
                           (0x7fc00001 if nb == 32 else 0x7ff8000000000001),
                           (0x3f800000 if nb == 32 else 0x3ff0000000000000), 1])
    k = rng.random()
    if EXTREME_P[0] and rng.random() < EXTREME_P[0]:
        # every field at (or one step inside) an end of its range: INT_MAX + 1, INT_MIN - 1, 0 - 1 in derived expressions
        return rng.choice([lo, hi, hi, max(lo, hi - 1), min(hi, lo + 1)])
    if k < 0.55:
        return max(lo, min(hi, rng.choice([0, 1, 2, 3, 4, 5, 8, 10])))
    if k < 0.65:
        return rng.choice([lo, hi])
    return rng.randint(lo, hi)


EXTREME_P = [0.0]


def fill(view, rng, depth=0):
    """Writes plausible values into every present, complete scalar of `view`."""
    if depth > 3:
        return
    for f in view.s.all_named_fields():
        if f.kind == "virtual":
            continue
        view._memo.clear()
        if view.has(f) is not True:
            continue
        fv = view.field_view(f)
        _fill_value(fv, rng, depth)
    view._memo.clear()


def _fill_value(fv, rng, depth):
    if isinstance(fv, ScalarView):
        if not fv.is_complete():
            return
        for _ in range(4):
            v = _pick_value(rng, fv)
            raw = encode_scalar(fv.t, v, fv.nbits)
            if raw is None:
                continue
            write_bits(fv.store.buf, fv.addrs(), raw)
            if fv.read()[0] is True:
                break
    elif isinstance(fv, StructView):
        if not fv.store.null:
            fill(fv, rng, depth + 1)
    elif isinstance(fv, ArrayView):
        c = fv.count()
        if known(c):
            for i in range(min(c, 8)):
                _fill_value(fv.element(i), rng, depth + 1)


def encode_random(module, struct_name, params, rng, n):
    buf = bytearray(rng.getrandbits(8) if rng.random() < 0.3 else 0 for _ in range(n))
    for _ in range(2):
        v = view(module, struct_name, params, buf)
        fill(v, rng)
    return bytes(buf)
