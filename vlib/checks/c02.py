"""C02 — scalar fields decode with the documented byte order, bit numbering
and format.

Direct runtime harness (vlib/rt_harness.py): the real UIntView / IntView /
BcdView / FlagView / FloatView / EnumView over OffsetBitBlock<BitBlock<...>>
for EVERY (container 8..64, width, offset) triple, both byte orders, default
and EMBOSS_NO_OPTIMIZATIONS builds, unaligned and 8-aligned buffers, ASan+UBSan;
each printed observation (Ok, Read, ValueType width/signedness, and a
CouldWriteValue/TryToWrite with the resulting bytes) is judged by a pure-Python
bit-slice decoder.  The same lines feed C03's direct write clause.
"""

import json
import os
import subprocess

from vlib import common, cppdrv, refsem, rt_harness

LEVEL = "exploration"
VARIANTS = [("default", []), ("aligned8", ["-DBUFALIGN=8"]), ("portable", ["-DEMBOSS_NO_OPTIMIZATIONS"])]


def bcd_decode(raw, nbits):
    v, mul, ok = 0, 1, True
    for _ in range((nbits + 3) // 4):
        d = raw & 0xF
        if d > 9:
            ok = False
        v += d * mul
        mul *= 10
        raw >>= 4
    return ok, v


def bcd_encode(v):
    raw, sh = 0, 0
    while v:
        raw |= (v % 10) << sh
        v //= 10
        sh += 4
    return raw


def judge_line(parts):
    """Returns (mech, what) or None."""
    ty, order, c, w, o, h, ok, val, sgn, wval, could, tr, h2, vbits, vsigned = parts
    c, w, o, ok, could, tr, vbits, vsigned = int(c), int(w), int(o), int(ok), int(could), int(tr), int(vbits), int(vsigned)
    wval = int(wval)
    data = bytes.fromhex(h)
    after = bytes.fromhex(h2)
    cont = int.from_bytes(data, "little" if order == "LE" else "big")
    mask = (1 << w) - 1
    raw = (cont >> o) & mask
    kind = ty.lstrip("D")
    signed_enum_narrow = False
    if kind == "U":
        eok, ev, lo, hi, esigned = 1, raw, 0, mask, 0
    elif kind == "I":
        ev = raw - (1 << w) if raw >> (w - 1) & 1 else raw
        eok, lo, hi, esigned = 1, -(1 << (w - 1)), (1 << (w - 1)) - 1, 1
    elif kind == "B":
        b_ok, ev = bcd_decode(raw, w)
        eok = 1 if b_ok else 0
        lo, hi, esigned = 0, 10 ** (w // 4) * 2 ** (w % 4) - 1, 0
    elif kind == "F" and ty == "F":
        eok, ev, lo, hi, esigned = 1, raw & 1, 0, 1, 0
    elif ty == "DF":
        eok, ev, lo, hi, esigned = 1, raw, 0, mask, 1
        if ok != 1 or str(ev) != val:
            return ("float-read", "Float%d %s bytes %s: Read bits %s expected %d" % (w, order, h, val, ev))
        return None
    elif kind.startswith("ES"):
        ev = raw - (1 << w) if raw >> (w - 1) & 1 else raw
        eok, lo, hi, esigned = 1, -(1 << (w - 1)), (1 << (w - 1)) - 1, 1
        signed_enum_narrow = w < vbits
    elif kind.startswith("EU"):
        eok, ev, lo, hi, esigned = 1, raw, 0, mask, 0
    else:
        return ("unknown-line", " ".join(parts))
    where = "%s %s container=%d width=%d offset=%d bytes=%s" % (ty, order, c, w, o, h)
    # the listed defect only explains differences on values whose sign bit (at field width) is set
    known = "signed-enum-narrow-field-zero-extended" if (signed_enum_narrow and (raw >> (w - 1)) & 1) else None
    if ok != eok:
        return (known or "ok-differs", "%s: Ok() %d expected %d" % (where, ok, eok))
    if eok and str(ev) != val:
        return (known or "read-differs", "%s: Read() %s expected %d" % (where, val, ev))
    if vbits < w:
        return ("valuetype-too-narrow", "%s: ValueType has %d bits" % (where, vbits))
    if not kind.startswith("E") and ty not in ("F",) and vsigned != esigned:
        return ("valuetype-signedness", "%s: ValueType signed=%d" % (where, vsigned))
    # write clause (C03 direct harness)
    known = None
    cont_vt = min(b for b in (8, 16, 32, 64) if b >= c)  # width of the bit block's C++ value type
    if kind.startswith("ES") and (w < cont_vt or w < vbits) and not (0 <= wval <= hi):
        # the listed defect on the write side: EnumView::CouldWriteValue compares the value cast to the bit block's
        # unsigned value type, so a negative value is refused whenever the field is narrower than its container's C++ value type (even
        # when it is as wide as the enum's underlying type)
        known = "signed-enum-narrow-field-zero-extended"
    ecould = lo <= wval <= hi
    if could != (1 if ecould else 0):
        return (known or "could-differs", "%s: CouldWriteValue(%d) %d expected %d" % (where, wval, could, ecould))
    if tr != could:
        return (known or "try-differs", "%s: TryToWrite(%d) %d but CouldWriteValue %d on a complete view" % (where, wval, tr, could))
    if ecould:
        if kind == "B":
            enc = bcd_encode(wval)
        elif kind == "F":
            enc = wval & 1
        else:
            enc = wval & mask
        ncont = (cont & ~(mask << o)) | (enc << o)
    else:
        ncont = cont
    eafter = ncont.to_bytes(c // 8, "little" if order == "LE" else "big")
    if after != eafter:
        return (known or "write-bytes-differ", "%s: after TryToWrite(%d) bytes %s expected %s" % (where, wval, h2, eafter.hex()))
    return None


def container_case(arg):
    common.repo_on_path()
    c, variant, flags = arg["container"], arg["variant"], arg["flags"]
    out = {"container": c, "variant": variant, "lines": 0, "viol": [], "configs": 0, "by_type": {}, "abort": None,
           "built": False, "sample": None}
    with common.Scratch("c02") as d:
        b, err = cppdrv.build(d, rt_harness.HARNESS, "asan", name="rt%d" % c,
                              extra=["-DCONTAINER=%d" % c, "-DNCONTENTS=%d" % arg["ncontents"], "-ftemplate-depth=300"] + flags)
        if b is None:
            out["build_error"] = err[-1500:]
            return out
        out["built"] = True
        env = dict(os.environ)
        env.update(cppdrv.RUN_ENV)
        r = subprocess.run([b, str(arg["seed"])], capture_output=True, text=True, env=env, timeout=1200, errors="replace")
        if r.returncode != 0 or "#DONE" not in r.stdout:
            kind, detail = cppdrv.summarize_report({"kind": "asan" if "AddressSanitizer" in r.stderr else (
                "ubsan" if "runtime error" in r.stderr else ("emboss-check" if "EMBOSS_CHECK_FAILED" in r.stderr else "crash")),
                "report": r.stderr[-4000:]})
            out["abort"] = {"kind": kind, "detail": detail, "report": r.stderr[-1500:], "last_line": r.stdout.strip().split("\n")[-1][:200]}
        seen = set()
        for line in r.stdout.split("\n"):
            parts = line.split(" ")
            if len(parts) != 15:
                continue
            out["lines"] += 1
            out["by_type"][parts[0]] = out["by_type"].get(parts[0], 0) + 1
            seen.add((parts[0], parts[1], parts[3], parts[4]))
            try:
                v = judge_line(parts)
            except Exception as e:
                v = ("oracle-exception", "%r on %s" % (e, line))
            if v:
                # capped PER MECHANISM: thousands of occurrences of a listed finding must not crowd out another one
                permech = out.setdefault("per_mech", {})
                permech[v[0]] = permech.get(v[0], 0) + 1
                if permech[v[0]] <= 8:
                    out["viol"].append({"mech": v[0], "what": v[1], "line": line, "variant": variant})
                out["nviol"] = out.get("nviol", 0) + 1
            elif out["sample"] is None and parts[0] == "I" and parts[3] == "5" and parts[6] == "1":
                out["sample"] = line
        out["configs"] = len(seen)
    return out


def run(ctx):
    quick = ctx.tier == "quick"
    common.repo_on_path()
    with common.Scratch("c02canary") as d:
        ok, detail = cppdrv.liveness_canary(d)
    ctx.extra["sanitizer_canary"] = detail
    if not ok:
        raise common.Inconclusive("sanitizer liveness canary failed: " + detail)
    args = []
    for variant, flags in VARIANTS:
        for c in range(64, 7, -8):
            if quick and variant == "aligned8" and c not in (16, 32, 64):
                continue
            if quick and variant == "portable" and c not in (16, 64):
                continue
            args.append({"container": c, "variant": variant, "flags": flags + (["-O0"] if quick else []),
                         "ncontents": 8 if quick else 40, "seed": ctx.seed})
    res = common.run_cases("c02", "container_case", args, timeout=3000)
    triples = set()
    for a, (st, val) in zip(args, res):
        if st != "ok" or not val.get("ok"):
            ctx.inconclusive_cases += 1000
            ctx.evaluations += 1000
            ctx.count("harness_failed_" + st)
            if st == "ok":
                print("worker error:", val.get("err"), val.get("tb", "")[-800:])
            continue
        v = val["val"]
        if not v["built"]:
            ctx.count("harness_build_failed")
            ctx.violation("C02:harness-does-not-compile", "container %d variant %s: %s" % (a["container"], a["variant"], v.get("build_error", "")), v)
            continue
        ctx.count("harness_binaries")
        ctx.evaluations += v["lines"]
        ctx.count("observations_judged", v["lines"])
        ctx.count("distinct_type_order_width_offset_" + a["variant"], v["configs"])
        for k, c in v["by_type"].items():
            ctx.count("type_" + k, c)
        ctx.nontrivial((a["container"], a["variant"]))
        if v["sample"]:
            ctx.sample({"line_format": "type order container width offset bytes ok value s/u written could try bytes_after valuetype_bits valuetype_signed",
                        "line": v["sample"]}, limit=3)
        if v["abort"]:
            ctx.violation("C02:abort:%s:%s" % (v["abort"]["kind"], v["abort"]["detail"]),
                          "harness container %d variant %s aborted after %s\n%s" % (a["container"], a["variant"],
                                                                                 v["abort"]["last_line"], v["abort"]["report"][-700:]), v["abort"])
        for x in v["viol"]:
            ctx.violation("C02:" + x["mech"], "[%s] %s" % (x["variant"], x["what"]), x)
    ctx.extra["exhaustive_over_triples"] = True
    ctx.extra["explanation"] = ("every (container, width, offset) triple with offset+width <= container is instantiated for UInt, Int "
                                "and Bcd in both byte orders (6672 triples x 3 types x 2 orders per build variant), Flag at every bit, "
                                "Float32/64, enums of 8 underlying types; contents are sampled (%d patterns per triple)" % (8 if quick else 40))
    ctx.rule = ("evaluation = one printed observation (Ok, Read, ValueType, CouldWriteValue/TryToWrite + bytes after) of one view "
                "configuration on one container content; distinct_nontrivial = (container, build variant) harness runs; the triple "
                "space is enumerated exhaustively, contents are patterns (zeros, ones, field lsb/msb only, all-but-field, "
                "all-but-sign, BCD-valid, random)")
    ctx.assumptions = ["pure-Python bit-slice decoder is the reference", "x86-64 little-endian host only"]
    return ctx.finish(min_evals=100000, require=("harness_binaries", "type_U", "type_I", "type_B", "type_F", "type_DF", "type_EU64"))


def replay(path):
    with open(path) as f:
        rp = json.load(f)["replay"]
    if "line" in rp:
        v = judge_line(rp["line"].split(" "))
        print("recorded observation:", rp["line"], "->", v)
    print("re-run ./vcheck C02 to rebuild the harness against the current tree")
    return 0
