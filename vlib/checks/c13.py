"""C13 — expression typing: well-typed modules are accepted, ill-typed ones
rejected.

Acceptance oracle known by construction.  Positive class: a typed expression
generator (integer / boolean / enum sorts, small ranges so that no 64-bit-gate
rejection can occur) fills every expression position of a base module (offset,
size, array length, enum value, condition, [requires] on field and structure,
parameter arguments, virtual values, $max / $present / bound functions, ?:).
Negative class: the documented catalogue of single-rule violations, each
applied at one site; the module must be rejected, without a crash, with a
non-synthetic error located on the line of the offending construct.
"""

import json
import re

from vlib import common, embc

LEVEL = "exploration"


class G(object):
    def __init__(self, rng):
        self.r = rng
        self.ints = ["a", "b", "n", "sub.x", "t3"]     # small unsigned sources (<= 8 bits)
        self.bools = ["f1", "f2"]
        self.ea = ["ea", "e"]                            # values of enum Ea
        self.eb = ["eb", "eb2"]                          # values of other enums: Eb, and Sub.Ea (same last name as Ea)

    def int(self, d=0):
        r = self.r
        k = r.random()
        if d > 2 or k < 0.35:
            return r.choice(self.ints) if r.random() < 0.6 else str(r.choice([0, 1, 2, 3, 7, 10, 100]))
        if k < 0.5:
            return "(%s + %s)" % (self.int(d + 1), self.int(d + 1))
        if k < 0.6:
            return "(%s - %s)" % (self.int(d + 1), self.int(d + 1))
        if k < 0.68:
            return "(%s * %s)" % (r.choice(self.ints), r.choice(["2", "3", r.choice(self.ints)]))
        if k < 0.78:
            return "$max(%s)" % ", ".join(self.int(d + 1) for _ in range(r.randint(1, 3)))
        if k < 0.88:
            return "(%s ? %s : %s)" % (self.bool(d + 1), self.int(d + 1), self.int(d + 1))
        if k < 0.94:
            return "$upper_bound(%s)" % self.int(d + 1)
        return "$lower_bound(%s)" % self.int(d + 1)

    def bool(self, d=0):
        r = self.r
        k = r.random()
        if d > 2 or k < 0.2:
            return r.choice(self.bools + ["true", "false"])
        if k < 0.45:
            return "%s %s %s" % (self.int(d + 1), r.choice(["==", "!=", "<", "<=", ">", ">="]), self.int(d + 1))
        if k < 0.52:
            return "%s %s %s" % (self.enum_a(), r.choice(["==", "!="]), self.enum_a())
        if k < 0.55:
            return "%s %s %s" % (r.choice(["eb2", "Sub.Ea.AONE"]), r.choice(["==", "!="]), r.choice(["eb2", "Sub.Ea.AZERO"]))
        if k < 0.62:
            return "%s %s %s" % (r.choice(self.bools), r.choice(["==", "!="]), r.choice(self.bools + ["true"]))
        if k < 0.8:
            return "(%s) %s (%s)" % (self.bool(d + 1), r.choice(["&&", "||"]), self.bool(d + 1))
        if k < 0.88:
            return "$present(%s)" % r.choice(["a", "b", "ea", "sub", "sub.x", "opt"])
        return "(%s ? %s : %s)" % (self.bool(d + 1), self.bool(d + 1), self.bool(d + 1))

    def enum_a(self, d=0):
        r = self.r
        k = r.random()
        if d > 1 or k < 0.7:
            return r.choice(self.ea + ["Ea.AZERO", "Ea.AONE"])
        return "(%s ? %s : %s)" % (self.bool(d + 1), self.enum_a(d + 1), self.enum_a(d + 1))

    def enum_b(self):
        return self.r.choice(self.eb + ["Eb.BZERO", "Eb.BFIVE", "Sub.Ea.AZERO", "Sub.Ea.AONE"])

    # -- ill-typed expressions: exactly one rule broken at the root ---------------
    def bad(self, want):
        """Returns (expr, rule) where expr is NOT of sort `want` or is internally ill-typed."""
        r = self.r
        cat = [
            ("(%s) + (%s)" % (self.int(1), self.bool(1)), "arith-on-bool"),
            ("(%s) * (%s)" % (self.enum_a(), self.int(1)), "arith-on-enum"),
            ("(%s) - (%s)" % (self.bool(1), self.int(1)), "arith-on-bool"),
            ("(%s) && (%s)" % (self.int(1), self.bool(1)), "logic-on-int"),
            ("(%s) || (%s)" % (self.bool(1), self.enum_a()), "logic-on-enum"),
            ("(%s) < (%s)" % (self.bool(1), self.bool(1)), "order-on-bool"),
            ("(%s) >= (%s)" % (self.int(1), self.bool(1)), "order-on-bool"),
            ("(%s) == (%s)" % (self.int(1), self.bool(1)), "eq-int-bool"),
            ("(%s) == (%s)" % (self.enum_a(), self.int(1)), "eq-enum-int"),
            ("(%s) != (%s)" % (self.enum_a(), self.enum_b()), "eq-two-enums"),
            ("(%s) == (%s)" % (self.bool(1), self.enum_a()), "eq-bool-enum"),
            ("(%s) ? (%s) : (%s)" % (self.int(1), self.int(1), self.int(1)), "choice-int-condition"),
            ("(%s) ? (%s) : (%s)" % (self.bool(1), self.int(1), self.bool(1)), "choice-branches-differ"),
            ("(%s) ? (%s) : (%s)" % (self.bool(1), self.enum_a(), self.enum_b()), "choice-branches-two-enums"),
            ("$max()", "max-no-args"),
            ("$max(%s, %s)" % (self.int(1), self.bool(1)), "max-of-bool"),
            ("$present(%s)" % r.choice(["1", "true", "a + 1"]), "present-of-non-field"),
            ("$present(a, b)", "present-two-args"),
            ("$upper_bound(%s)" % self.bool(1), "bound-of-bool"),
            ("$lower_bound(%s)" % self.enum_a(), "bound-of-enum"),
            ("(%s) < (%s)" % (self.enum_a(), self.enum_a()), "order-on-enum"),
        ]
        e, rule = r.choice(cat)
        # wrap so that the resulting sort still fits the slot where possible (the inner error must be reported)
        if want == "int" and r.random() < 0.5:
            return "(%s ? 1 : 2)" % e if rule not in ("max-no-args",) and not e.startswith("$max") and "?" not in e and r.random() < 0.3 else e, rule
        return e, rule


def build(rng, negative):
    """Returns (files, expect_accept, rule, mutated_lines)."""
    g = G(rng)
    L = ['[$default byte_order: "LittleEndian"]', "", "enum Ea:", "  AZERO = 0", "  AONE = 1", "", "enum Eb:", "  BZERO = 0", "  BFIVE = 5", "",
         "struct Sub:", "  enum Ea:", "    AZERO = 0", "    AONE = 1", "  0 [+1]  UInt  x", "", "struct Par(n: UInt:8, e: Ea):", "  0 [+1]  UInt  x", "  let twice = n * 2", ""]
    L.append("struct Main(n: UInt:8, e: Ea):")
    struct_req_at = len(L)
    L += ["  0 [+1]  UInt  a", "  1 [+1]  UInt  b", "  2 [+1]  Ea  ea", "  3 [+1]  Eb  eb", "  4 [+1]  bits:", "    0 [+1]  Flag  f1",
          "    1 [+1]  Flag  f2", "    2 [+3]  UInt  t3", "  5 [+1]  Sub  sub", "  if a == 1:", "    6 [+1]  UInt  opt",
          "  11 [+1]  Sub.Ea  eb2"]
    slots = []  # (kind, line index)

    def add(kind, text):
        L.append(text)
        slots.append((kind, len(L) - 1))

    # positive content: every expression position
    off = 7
    add("offset", "  %s [+1]  UInt  at_offset" % g.int())
    add("size", "  %d [+%s]  UInt:8[]  sized" % (off, g.int()))
    add("length", "  %d [+2]  UInt:8[%s]  lengthed" % (off, rng.choice(["2", "1 + 1", "$max(1, 2)"])))
    add("cond", "  if %s:" % g.bool())
    L.append("    %d [+1]  UInt  guarded" % off)
    add("field_requires", "  %d [+1]  UInt  checked" % (off + 2))
    L.append("    [requires: %s]" % rng.choice(["this < 10", "this != 3 && this > 0", "this >= 1 || this == 0"]))
    slots[-1] = ("field_requires", len(L) - 1)
    add("arg_int", "  %d [+1]  Par(%s, %s)  par" % (off + 3, g.int(), g.enum_a()))
    add("virtual_int", "  let vi = %s" % g.int())
    add("virtual_bool", "  let vb = %s" % g.bool())
    add("virtual_enum", "  let ve = %s" % g.enum_a())
    add("static_ref", "  let vs = %s" % rng.choice(["Par.twice - Par.twice + 1" if False else "Konst.k + 1", "Konst.k"]))
    L += ["", "struct Konst:", "  let k = 7", "  0 [+1]  UInt  x", "", "enum Ec:"]
    add("enum_value", "  CZERO = %s" % rng.choice(["1", "1 + 2", "$max(2, 3)", "Konst.k"]))
    L.append("  CNINE = 9")
    sreq = rng.random() < 0.5
    if sreq:
        L.insert(struct_req_at, "  [requires: %s]" % g.bool())
        slots = [(k, i + 1 if i >= struct_req_at else i) for k, i in slots]
        slots.append(("struct_requires", struct_req_at))
    if not negative:
        return {"m.emb": "\n".join(L) + "\n"}, True, None, []
    # negative: break exactly one rule at one site
    kind, idx = rng.choice(slots)
    rule = None
    line = L[idx]
    ind = line[:len(line) - len(line.lstrip())]
    if kind == "offset":
        e, rule = rng.choice([(g.bool(), "offset-bool"), (g.enum_a(), "offset-enum"), g.bad("int")])
        L[idx] = "  %s [+1]  UInt  at_offset" % e
    elif kind == "size":
        e, rule = rng.choice([(g.bool(), "size-bool"), (g.enum_a(), "size-enum"), g.bad("int")])
        L[idx] = "  7 [+%s]  UInt:8[]  sized" % e
    elif kind == "length":
        e, rule = rng.choice([("true", "length-bool"), ("Ea.AONE", "length-enum"), g.bad("int")])
        L[idx] = "  7 [+2]  UInt:8[%s]  lengthed" % e
    elif kind == "cond":
        e, rule = rng.choice([(g.int(), "condition-int"), (g.enum_a(), "condition-enum"), g.bad("bool")])
        L[idx] = "  if %s:" % e
    elif kind == "field_requires":
        e, rule = rng.choice([("this + 1", "requires-int"), ("Ea.AZERO", "requires-enum"), g.bad("bool")])
        L[idx] = "    [requires: %s]" % e
    elif kind == "struct_requires":
        e, rule = rng.choice([(g.int(), "requires-int"), g.bad("bool")])
        L[idx] = "  [requires: %s]" % e
    elif kind == "arg_int":
        form = rng.random()
        if form < 0.15:
            L[idx] = "  10 [+1]  Par(%s)  par" % g.int()
            rule = "too-few-arguments"
        elif form < 0.3:
            L[idx] = "  10 [+1]  Par(%s, %s, 1)  par" % (g.int(), g.enum_a())
            rule = "too-many-arguments"
        elif form < 0.45:
            L[idx] = "  10 [+1]  Par(%s, %s)  par" % (g.enum_a(), g.enum_a())
            rule = "enum-for-int-parameter"
        elif form < 0.6:
            L[idx] = "  10 [+1]  Par(%s, %s)  par" % (g.int(), g.int())
            rule = "int-for-enum-parameter"
        elif form < 0.72:
            L[idx] = "  10 [+1]  Par(%s, %s)  par" % (g.int(), g.enum_b())
            rule = "other-enum-for-enum-parameter"
        elif form < 0.84:
            L[idx] = "  10 [+1]  Par(%s, %s)  par" % (g.bool(), g.enum_a())
            rule = "bool-for-int-parameter"
        else:
            e, rule = g.bad("int")
            L[idx] = "  10 [+1]  Par(%s, %s)  par" % (e, g.enum_a())
    elif kind in ("virtual_int", "virtual_bool", "virtual_enum"):
        e, rule = g.bad("any")
        L[idx] = "  let %s = %s" % ({"virtual_int": "vi", "virtual_bool": "vb", "virtual_enum": "ve"}[kind], e)
    elif kind == "static_ref":
        e, rule = rng.choice([("Sub.x", "static-ref-to-physical-field"), ("Par.twice", "static-ref-to-non-constant"),
                              ("Par.n", "static-ref-to-parameter")])
        L[idx] = "  let vs = %s" % e
    elif kind == "enum_value":
        e, rule = rng.choice([("true", "enum-value-bool"), ("Ea.AONE", "enum-value-enum"), ("1 == 1", "enum-value-bool"), g.bad("int")])
        L[idx] = "  CZERO = %s" % e
    # parameter declaration faults (separate site)
    if rng.random() < 0.12:
        L[idx] = line  # undo, use a declaration fault instead
        decl = [i for i, l in enumerate(L) if l.startswith("struct Par(")][0]
        form, rule = rng.choice([("struct Par(n: Flag, e: Ea):", "parameter-of-type-flag"), ("struct Par(n: Sub, e: Ea):", "parameter-of-struct-type"),
                                 ("struct Par(n: UInt:8[2], e: Ea):", "parameter-of-array-type"), ("struct Par(n: UInt, e: Ea):", "int-parameter-without-width"),
                                 ("struct Par(n: UInt:8, e: Ea:8):", "enum-parameter-with-width")])
        L[decl] = form
        idx = decl
    return {"m.emb": "\n".join(L) + "\n"}, False, rule, [idx + 1]


def _same_definition(text, line_a, line_b):
    """Both lines lie in the same top-level type definition."""
    ls = text.split("\n")

    def start(n):
        n = min(max(n, 1), len(ls))
        while n > 1 and not re.match(r"^(struct|bits|enum|external)\b", ls[n - 1]):
            n -= 1
        return n

    return start(line_a) == start(line_b)


def judge(files, expect_accept, rule, lines):
    try:
        ir, _d, errors = embc.parse(files)
    except embc.CpuBudgetExceeded:
        return [("no-termination", "CPU budget exceeded")]
    except Exception as e:
        et, site = embc.crash_site(e)
        return [("crash:%s@%s" % (et, site), "compiler raised %r (rule %s)" % (e, rule))]
    if expect_accept:
        if errors:
            m = errors[0][0]
            return [("well-typed-module-rejected", "%s at %s" % (m.message.split("\n")[0], m.location))]
        return []
    if not errors:
        return [("ill-typed-accepted:" + rule, "module violating rule %r is accepted: %r" % (rule, files["m.emb"].split("\n")[lines[0] - 1]))]
    viol = []
    msgs = [m for g in errors for m in g]
    if any(m.location.is_synthetic for m in msgs):
        viol.append(("synthetic-only-error:" + rule, "error at the internal 'compiler bug' location: %r" % msgs[0].message.split("\n")[0]))
    elif not any(m.source_file == "m.emb" and _same_definition(files["m.emb"], m.location.start.line, lines[0]) for m in msgs):
        viol.append(("error-not-on-offending-line:" + rule, "rule %r broken on line %r but errors are at %r" % (
            rule, lines, [(m.location.start.line, m.message.split("\n")[0][:50]) for m in msgs][:3])))
    return viol


def batch(arg):
    common.repo_on_path()
    out = {"viol": [], "n": 0, "pos": 0, "neg": 0, "rules": {}, "samples": [], "distinct": []}
    for i in range(arg["start"], arg["start"] + arg["count"]):
        rng = common.case_rng(arg["seed"], "C13", i)
        negative = rng.random() < 0.75
        files, exp, rule, lines = build(rng, negative)
        out["n"] += 1
        out["neg" if negative else "pos"] += 1
        if rule:
            out["rules"][rule] = out["rules"].get(rule, 0) + 1
        out["distinct"].append(hash((rule, hash(files["m.emb"]) & 0xff)))
        for mech, what in judge(files, exp, rule, lines):
            out["viol"].append({"mech": mech, "what": what, "files": files, "rule": rule, "lines": lines, "case": i, "expect_accept": exp})
        if not out["samples"] and negative:
            out["samples"].append({"case": i, "rule": rule, "line": files["m.emb"].split("\n")[lines[0] - 1]})
    out["viol"] = common.cap_by_mech(out["viol"])
    return out


def run(ctx):
    quick = ctx.tier == "quick"
    n = 2400 if quick else 40000
    per = 80 if quick else 800
    args = [{"seed": ctx.seed, "start": s, "count": min(per, n - s)} for s in range(0, n, per)]
    res = common.run_cases("c13", "batch", args, timeout=2400)
    rules = {}
    for a, (st, val) in zip(args, res):
        if st != "ok" or not val.get("ok"):
            ctx.inconclusive_cases += a["count"]
            ctx.evaluations += a["count"]
            if st == "ok":
                print("worker error:", val.get("err"), val.get("tb", "")[-800:])
            continue
        v = val["val"]
        ctx.evaluations += v["n"]
        ctx.count("positive_modules", v["pos"])
        ctx.count("negative_modules", v["neg"])
        for k, c in v["rules"].items():
            rules[k] = rules.get(k, 0) + c
        for h in v["distinct"]:
            ctx.distinct.add(h)
        for s in v["samples"]:
            ctx.sample(s, limit=5)
        for x in v["viol"]:
            ctx.violation("C13:" + x["mech"], x["what"], x)
    ctx.extra["rules_exercised"] = rules
    ctx.count("distinct_rules", len(rules))
    ctx.rule = ("case = base module with every expression position filled by a typed generator; 75% of cases break exactly one "
                "documented typing rule at one site (catalogue of ~45 rules); distinct_nontrivial = distinct (rule, text hash class)")
    ctx.assumptions = ["positive class uses only <= 8-bit sources and small constants so that range analysis cannot reject it",
                       "the error must be located on the line of the offending construct (any message of any group)"]
    return ctx.finish(min_evals=n // 2, require=("positive_modules", "negative_modules", "distinct_rules"))


def replay(path):
    common.repo_on_path()
    with open(path) as f:
        rp = json.load(f)["replay"]
    v = judge(rp["files"], rp["expect_accept"], rp["rule"], rp["lines"])
    for mech, what in v:
        print("VIOLATION property=C13 replay=%s\n  %s: %s" % (path, mech, what))
    return 1 if v else 0
