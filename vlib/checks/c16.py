"""C16 — the compiler is total: any input yields output or well-formed located
errors.

Wrapper monitors on the real entry points (glue.parse_emboss_file,
header_generator.generate_header, error.format_errors, and the CLI helper
emboss_front_end.parse_and_log_errors / embossc) record call and return/raise
events; a message-shape checker judges every returned error list.
Crashes are bucketed by (exception type, innermost repository frame).
"""

import contextlib
import io
import json
import os
import re
import subprocess

from vlib import common, embc, syngen, textgen

LEVEL = "exploration"
CPU_BUDGET_S = 10  # logical budget (process CPU time) per compilation; largest legitimate case seen: 0.6 s


def _imports(files):
    names = set()
    for t in files.values():
        if t:
            for m in re.finditer(r'^\s*import\s*"((?:[^"\\]|\\.)*)"', t, re.M):
                names.add(m.group(1).replace('\\"', '"').replace("\\\\", "\\").replace("\\n", "\n"))
    return names


def _template(msg):
    """Message text with names and numbers abstracted (mechanism key part)."""
    t = msg.split("\n")[0]
    t = re.sub(r"'[^']*'", "'X'", t)
    t = re.sub(r"^[a-z_$][a-z_0-9$]* is not constant", "X is not constant", t)
    t = re.sub(r"-?\d[\d_]*", "N", t)
    return t[:70]


def check_messages(errors, files, allow_synthetic=False):
    """Shape checker for an error list.  Returns list of (mech, what)."""
    from compiler.util import error as error_mod
    out = []
    if not isinstance(errors, list) or not errors:
        return [("errors-empty", "error list is %r" % (errors,))]
    known = set(files) | {""} | _imports(files)
    for g in errors:
        if not isinstance(g, list) or not g:
            out.append(("empty-group", "error group is %r" % (g,)))
            continue
        for m in g:
            if not isinstance(m, error_mod._Message):
                out.append(("not-a-message", "group element %r" % (m,)))
                continue
            if m.source_file not in known:
                out.append(("unknown-file", "message names file %r, supplied %r" % (m.source_file, sorted(known))))
                continue
            loc = m.location
            if loc.is_synthetic and not allow_synthetic:
                # which source text the compiler disowns: its own synthesized expressions have no text of their own
                # (they reuse positions of the operands they were built from), whereas `$next` is something the user
                # wrote and a message about it must point at it
                at = ""
                text = files.get(m.source_file)
                if text is not None:
                    ls = text.splitlines()
                    if 1 <= loc.start.line <= len(ls) and loc.start.line == loc.end.line:
                        at = ls[loc.start.line - 1][loc.start.column - 1:loc.end.column - 1]
                if at == "$next":
                    out.append(("synthetic-location-on-user-written-$next:" + _template(m.message),
                                "message %r about the user's `$next` at %s carries the internal 'compiler bug' location" % (
                                    m.message[:80], loc)))
                    continue
                out.append(("synthetic-location:" + _template(m.message), "user-visible message carries the internal 'compiler bug' location: %r" % (m.message,)))
                continue
            text = files.get(m.source_file)
            if text is None:
                continue  # prelude or unreadable import: nothing to locate in
            lines = text.splitlines()
            sl, sc = loc.start.line, loc.start.column
            if not (1 <= sl <= len(lines) + 1) or sc < 1 or (sl <= len(lines) and sc > len(lines[sl - 1]) + 1) or (
                    sl == len(lines) + 1 and sc != 1):
                if (sl, sc, loc.end.line, loc.end.column) == (0, 0, 0, 0):
                    out.append(("no-location:" + _template(m.message), "message %r has no source position (0:0-0:0)" % (
                        m.message[:60],)))
                elif not (len(lines) == 0 and (sl, sc) == (1, 1)):
                    out.append(("position-outside-file:" + _template(m.message), "message %r at %s but file has %d lines%s" % (
                        m.message[:60], loc, len(lines),
                        (", line length %d" % len(lines[sl - 1])) if 1 <= sl <= len(lines) else "")))
    # rendering with the sources supplied must not fail
    srcs = {k: v for k, v in files.items() if v is not None}
    try:
        s = error_mod.format_errors(errors, srcs)
        if not isinstance(s, str) or not s.strip():
            out.append(("render-empty", "format_errors returned %r" % (s,)))
    except Exception as e:
        et, site = embc.crash_site(e)
        out.append(("render-crash:%s@%s" % (et, site), "format_errors raised %r" % (e,)))
    try:
        error_mod.format_errors(errors, srcs, use_color=True)
        error_mod.format_errors(errors, {})
    except Exception as e:
        et, site = embc.crash_site(e)
        out.append(("render-crash:%s@%s" % (et, site), "format_errors (color / no sources) raised %r" % (e,)))
    return out


def monitor_compile(files, main="m.emb", traits=True):
    """Runs the front end and back end on in-memory files under the monitors.
    Returns (status, [(mech, what)])."""
    viol = []
    try:
        with embc.cpu_budget(CPU_BUDGET_S):
            ir, dbg, errors = embc.parse(files, main)
    except embc.CaseTimeout:
        raise
    except embc.CpuBudgetExceeded as e:
        et, site = embc.crash_site(e)
        return "crash", [("cpu-budget-exceeded@" + site, "front end used more than %d CPU-seconds on a %d-line input "
                          "(typical: < 0.5 s)" % (CPU_BUDGET_S, files[main].count("\n") + 1))]
    except RecursionError as e:
        et, site = embc.crash_site(e)
        return "crash", [("crash:RecursionError@" + site, "front end raised RecursionError")]
    except BaseException as e:
        if isinstance(e, (KeyboardInterrupt, SystemExit)):
            raise
        et, site = embc.crash_site(e)
        return "crash", [("crash:%s@%s" % (et, site), "glue.parse_emboss_file raised %r" % (e,))]
    if errors:
        if ir is not None:
            viol.append(("ir-with-errors", "both IR and errors returned"))
        viol.extend(check_messages(errors, files))
        return "rejected", viol
    if ir is None:
        return "rejected", [("no-ir-no-errors", "errors == [] together with no IR")]
    try:
        hdr, herrors = embc.header(ir, traits)
    except embc.CaseTimeout:
        raise
    except BaseException as e:
        if isinstance(e, (KeyboardInterrupt, SystemExit)):
            raise
        et, site = embc.crash_site(e)
        return "crash", [("backend-crash:%s@%s" % (et, site), "header_generator.generate_header raised %r" % (e,))]
    if herrors:
        viol.extend(check_messages(herrors, files))
        return "backend-rejected", viol
    if not isinstance(hdr, str) or "#ifndef" not in hdr:
        viol.append(("no-header", "back end returned neither errors nor a header"))
    return "accepted", viol


def monitor_cli_inprocess(files, main, scratch):
    """The CLI's own helper (reads from disk, prints diagnostics)."""
    from compiler.front_end import emboss_front_end
    from compiler.back_end.cpp import emboss_codegen_cpp, header_generator
    d = os.path.join(scratch, "cli")
    os.makedirs(d, exist_ok=True)
    for name, text in files.items():
        if text is None or "/" in name or "\n" in name or not name or len(name) > 80:
            continue
        with open(os.path.join(d, name), "w", encoding="utf-8", newline="") as f:
            f.write(text)
    buf = io.StringIO()
    viol = []
    try:
        with contextlib.redirect_stderr(buf):
            ir, _dbg, errors = emboss_front_end.parse_and_log_errors(main, [d], "never")
            if not errors:
                emboss_codegen_cpp.generate_headers_and_log_errors(ir, "never", header_generator.Config())
    except embc.CaseTimeout:
        raise
    except UnicodeError:
        pass  # file encoding of the scratch copy, not the compiler
    except BaseException as e:
        if isinstance(e, (KeyboardInterrupt, SystemExit)):
            raise
        et, site = embc.crash_site(e)
        viol.append(("crash:%s@%s" % (et, site), "emboss_front_end.parse_and_log_errors (CLI helper) raised %r" % (e,)))
    for name in files:
        p = os.path.join(d, name)
        if "/" not in name and "\n" not in name and name and os.path.exists(p):
            os.unlink(p)
    return viol


def gen_case(rng, corpus):
    """Returns (kind, files, main)."""
    r = rng.random()
    main = "m.emb"
    if r < 0.04:
        return "chars", {main: textgen.random_chars(rng, rng.randint(0, 120))}, main
    if r < 0.10:
        return "soup", {main: textgen.token_soup(rng)}, main
    if r < 0.26:
        text, _ = syngen.program(rng)
        return "syngen", {main: text}, main
    if r < 0.275:
        # locations at the edges of 64 bits: starts, sizes and `$next` whose sum only overflows when put together
        big = [2 ** 63 - 1, 2 ** 63, 2 ** 64 - 2, 2 ** 64 - 1, 2 ** 64, 0xffff_ffff_ffff_fffe, 2 ** 62, 2 ** 32, 255, 8, 1]
        L = ['[$default byte_order: "LittleEndian"]', "struct Edge:", "  0 [+8]  UInt  n"]
        for j in range(rng.randint(1, 4)):
            start = rng.choice(["n", "n", str(rng.choice(big)), "$next", "$next", "n + %d" % rng.choice(big), "0"])
            size = rng.choice([str(rng.choice(big)), "n", "1", "8", "n * %d" % rng.choice([1, 2, 255, 2 ** 32])])
            ty = rng.choice(["UInt:8[]", "UInt:8[]", "UInt", "Int", "UInt:64[]"])
            L.append("  %s [+%s]  %s  f%d" % (start, size, ty, j))
        L.append("  %s [+%s]  UInt  last" % (rng.choice(["$next", "$next", "n"]), rng.choice(["1", "8"])))
        if rng.random() < 0.3:
            L.append("  let v = $size_in_bytes + %d" % rng.choice(big))
        return "edge_locations", {main: "\n".join(L) + "\n"}, main
    name, text = corpus[rng.randrange(len(corpus))]
    if r < 0.30:
        lines = text.split("\n")
        return "truncated", {main: "\n".join(lines[:rng.randint(0, len(lines))]) + rng.choice(["", "\n"])}, main
    if r < 0.42:
        return "text_mutant", {main: textgen.mutate_text(rng, text)}, main
    if r < 0.84:
        if len(text) > 4000 and rng.random() < 0.7:
            parts = text.split("\n\n\n")
            k = rng.randrange(len(parts))
            text = "\n\n\n".join(parts[:1] + parts[k:k + rng.randint(1, 4)])
        files = {main: textgen.semantic_mutate(rng, text)}
        # give corpus importers their imports
        for imp in _imports(files):
            for cname, ctext in corpus:
                if cname.endswith(imp):
                    files[imp] = ctext
        return "semantic_mutant", files, main
    if r < 0.955:
        return cross_file_case(rng, corpus, main)
    # multi-file sets: missing / cyclic / self / mutated imports
    k = rng.random()
    base = "struct Foo:\n  0 [+1]  UInt  x\n"
    other = 'enum Ee:\n  AA = 1\n'
    if k < 0.2:
        return "import_missing", {main: 'import "nope.emb" as nope\n' + base}, main
    if k < 0.4:
        return "import_cycle", {main: 'import "b.emb" as b\n' + base, "b.emb": 'import "m.emb" as m\n' + other}, main
    if k < 0.5:
        return "import_self", {main: 'import "m.emb" as me\n' + base}, main
    if k < 0.7:
        return "import_bad", {main: 'import "b.emb" as b\nstruct Foo:\n  0 [+1]  b.Ee  x\n',
                              "b.emb": textgen.semantic_mutate(rng, other + base)}, main
    if k < 0.85:
        return "import_use", {main: 'import "b.emb" as b\nimport "c.emb" as c\nstruct Foo:\n  0 [+1]  b.Ee  x\n  1 [+1]  c.Foo  y\n  let v = %s\n' % (
            textgen.rand_expr(rng, ["x", "y", "b", "c"], ["Foo", "Ee"], ["AA"])),
            "b.emb": other, "c.emb": textgen.semantic_mutate(rng, base)}, main
    big = "struct Big:\n" + "".join("  %d [+1]  UInt  f%d\n" % (i, i) for i in range(rng.randint(100, 290)))
    big += "  let v = %s\n" % textgen.deep_expr(rng, ["f1", "f2"], rng.randint(20, 40))
    return "big", {main: big}, main


def _warm():
    common.repo_on_path()
    from compiler.front_end import parser
    parser.module_parser()  # load the 5 s tables outside any per-case budget


def cross_file_case(rng, corpus, main):
    """A short main module that imports a long library module (corpus file)
    and refers to its types, fields, enum values and builtins in valid and
    invalid ways: errors and their notes then span two files."""
    cands = [c for c in corpus if c[1].count("\n") > 25 and "import " not in c[1]]
    name, lib = cands[rng.randrange(len(cands))]
    if rng.random() < 0.5:
        from vlib import embgen, embspec
        lib = embspec.render_module(embgen.Gen(rng, {"max_structs": 3}).gen_module())
    structs = re.findall(r"^(?:struct|bits)\s+([A-Z]\w*)\s*(\([^)]*\))?:", lib, re.M)
    enums = re.findall(r"^enum\s+([A-Z]\w*):", lib, re.M)
    fields = {}
    cur = None
    for line in lib.split("\n"):
        m = re.match(r"^(?:struct|bits|enum)\s+([A-Z]\w*)", line)
        if m:
            cur = m.group(1)
            fields[cur] = []
            continue
        m = re.match(r"^\s+(?:.*\]\s+\S+\s+([a-z][a-z_0-9]*)\b|let\s+([a-z][a-z_0-9]*)\s*=|([A-Z][A-Z_0-9]+)\s*=)", line)
        if m and cur:
            fields[cur].extend([m.group(1) or m.group(2) or m.group(3)] * (4 if m.group(2) else 1))
    lines = ['import "lib.emb" as lib', "", "struct Main:", "  0 [+1]  UInt  tag"]
    off = 1
    for _ in range(rng.randint(1, 4)):
        k = rng.random()
        if structs and k < 0.5:
            t, params = rng.choice(structs)
            fs = fields.get(t) or ["x"]
            form = rng.random()
            if form < 0.45:
                lines.append("  let v%d = lib.%s.%s" % (off, t, rng.choice(fs + ["$size_in_bytes", "$max_size_in_bytes", "$min_size_in_bits"])))
            elif form < 0.8:
                args = "(%s)" % ", ".join(rng.choice(["1", "tag", "true", "lib.%s.%s" % (t, rng.choice(fs))])
                                          for _ in range(rng.randint(1, 2))) if (params or rng.random() < 0.15) else ""
                n = rng.choice([1, 2, 4, 8, 16, 64])
                lines.append("  %d [+%d]  lib.%s%s  f%d" % (off, n, t, args, off))
                off += n
            else:
                lines.append("  if tag == lib.%s.%s:" % (t, rng.choice(fs)))
                lines.append("    %d [+1]  UInt  c%d" % (off, off))
                off += 1
        elif enums:
            e = rng.choice(enums)
            vs = fields.get(e) or ["AA"]
            form = rng.random()
            if form < 0.4:
                lines.append("  %d [+%d]  lib.%s  e%d" % (off, rng.choice([1, 1, 2, 8, 9]), e, off))
                off += 1
            elif form < 0.7:
                lines.append("  let w%d = lib.%s.%s" % (off, e, rng.choice(vs + ["NOPE", "x"])))
            else:
                lines.append("  let w%d = tag == lib.%s.%s ? 1 : lib.%s.%s" % (off, e, rng.choice(vs), e, rng.choice(vs)))
        else:
            lines.append("  let z%d = lib.%s" % (off, rng.choice(["Nope.x", "x", "Foo", "tag"])))
        off += 1
    text = "\n".join(lines) + "\n"
    if rng.random() < 0.3:
        text = textgen.semantic_mutate(rng, text, 1)
    return "cross_file", {main: text, "lib.emb": lib}, main


def batch(arg):
    _warm()
    corpus = [c for c in textgen.corpus() if c[1].strip()]
    out = {"viol": [], "n": 0, "status": {}, "kinds": {}, "timeouts": 0, "cli": 0, "samples": [], "distinct": [],
           "msgs": 0}
    with common.Scratch("c16") as scratch:
        for i in range(arg["start"], arg["start"] + arg["count"]):
            rng = common.case_rng(arg["seed"], "C16", i)
            kind, files, main = gen_case(rng, corpus)
            out["n"] += 1
            out["kinds"][kind] = out["kinds"].get(kind, 0) + 1
            try:
                with embc.watchdog(120):
                    st, viol = monitor_compile(files, main, traits=rng.random() < 0.8)
                    if i % 4 == 0:
                        viol = viol + monitor_cli_inprocess(files, main, scratch)
                        out["cli"] += 1
            except embc.CaseTimeout:
                out["timeouts"] += 1
                continue
            out["status"][st] = out["status"].get(st, 0) + 1
            if st in ("rejected", "accepted", "backend-rejected") and kind not in ("chars", "soup"):
                out["distinct"].append(hash((st, files[main])))
            for mech, what in viol:
                out["viol"].append({"mech": mech, "what": what, "files": files, "main": main, "case": i, "kind": kind})
            if len(out["samples"]) < 1 and kind == "semantic_mutant" and st == "rejected" and len(files[main]) < 900:
                out["samples"].append({"case": i, "kind": kind, "status": st, "text": files[main]})
    out["viol"] = out["viol"][:80]
    return out


def cli_batch(arg):
    """Real embossc processes on a sample (exit status, no traceback)."""
    common.repo_on_path()
    corpus = [c for c in textgen.corpus() if c[1].strip()]
    out = {"viol": [], "runs": 0, "rc": {}}
    with common.Scratch("c16cli") as d:
        for i in range(arg["start"], arg["start"] + arg["count"]):
            rng = common.case_rng(arg["seed"], "C16cli", i)
            kind, files, main = gen_case(rng, corpus)
            ok = True
            for name, text in files.items():
                if text is None or "/" in name or not name:
                    ok = False
                    break
                try:
                    with open(os.path.join(d, name), "w", encoding="utf-8", newline="") as f:
                        f.write(text)
                except (UnicodeError, OSError, ValueError):
                    ok = False
            if not ok:
                continue
            r = subprocess.run([common.PY, os.path.join(common.REPO, "embossc"), "--output-path", "out", main],
                               cwd=d, capture_output=True, text=True, errors="replace", env=common.child_env(), timeout=300)
            out["runs"] += 1
            out["rc"][str(r.returncode)] = out["rc"].get(str(r.returncode), 0) + 1
            if "Traceback (most recent call last)" in r.stderr or r.returncode not in (0, 1):
                m = re.findall(r'File ".*?/(\w+)\.py", line \d+, in (\w+)', r.stderr)
                last = r.stderr.strip().splitlines()[-1] if r.stderr.strip() else ""
                site = "%s.%s" % m[-1] if m else "?"
                m2 = re.search(r"Attempting to call '(\w+)'; missing (\{[^}]*\})", last)
                if site.startswith("traverse_ir.") and m2:
                    site = "traverse_ir.invoke(%s missing %s)" % (m2.group(1), m2.group(2))
                elif site.startswith("traverse_ir."):
                    spec = [x for x in m if x[0] not in ("traverse_ir", "simple_memoizer")]
                    site = "%s.%s" % spec[-1] if spec else site
                et = last.split(":")[0].split(".")[-1] if last else "rc%d" % r.returncode
                if et == "UnicodeDecodeError" or "codec can't" in last:
                    continue
                out["viol"].append({"mech": "crash:%s@%s" % (et, site),
                                    "what": "embossc rc=%d: %s" % (r.returncode, last), "files": files, "main": main,
                                    "case": i, "kind": kind})
            elif r.returncode == 0 and not os.path.exists(os.path.join(d, "out", main + ".h")):
                out["viol"].append({"mech": "embossc-no-output", "what": "exit 0 but no header written", "files": files,
                                    "main": main, "case": i, "kind": kind})
            elif r.returncode == 1 and not r.stderr.strip():
                out["viol"].append({"mech": "embossc-silent-failure", "what": "exit 1 with empty stderr", "files": files,
                                    "main": main, "case": i, "kind": kind})
            for name in files:
                try:
                    os.unlink(os.path.join(d, name))
                except OSError:
                    pass
    return out


def run(ctx):
    quick = ctx.tier == "quick"
    n = 4000 if quick else 120000
    per = 125 if quick else 500
    args = [{"seed": ctx.seed, "start": s, "count": min(per, n - s)} for s in range(0, n, per)]
    ncli = 32 if quick else 400
    cargs = [{"seed": ctx.seed, "start": s, "count": 4} for s in range(0, ncli, 4)]
    import threading
    cres = []
    t = threading.Thread(target=lambda: cres.extend(common.run_cases("c16", "cli_batch", cargs, timeout=1500, jobs=4)))
    t.start()
    res = common.run_cases("c16", "batch", args, timeout=2400, jobs=common.NCPU - 4)
    t.join()
    for a, (st, val) in zip(args, res):
        if st != "ok" or not val.get("ok"):
            ctx.inconclusive_cases += a["count"]
            ctx.evaluations += a["count"]
            ctx.count("batch_failed_" + st)
            if st == "ok":
                print("worker error:", val.get("err"), val.get("tb", "")[-600:])
            continue
        v = val["val"]
        ctx.evaluations += v["n"]
        ctx.inconclusive_cases += v["timeouts"]
        ctx.count("watchdog_timeouts", v["timeouts"])
        ctx.count("cli_helper_runs", v["cli"])
        for k, c in v["status"].items():
            ctx.count("status_" + k, c)
        for k, c in v["kinds"].items():
            ctx.count("kind_" + k, c)
        for h in v["distinct"]:
            ctx.distinct.add(h)
        for s in v["samples"]:
            ctx.sample(s, limit=4)
        for x in v["viol"]:
            ctx.violation("C16:" + x["mech"], x["what"], x)
    for a, (st, val) in zip(cargs, cres):
        if st != "ok" or not val.get("ok"):
            ctx.count("cli_batch_failed")
            if st == "ok":
                print("worker error:", val.get("err"), val.get("tb", "")[-600:])
            continue
        ctx.count("embossc_process_runs", val["val"]["runs"])
        for k, c in val["val"]["rc"].items():
            ctx.count("embossc_rc_" + k, c)
        for x in val["val"]["viol"]:
            ctx.violation("C16:" + x["mech"], x["what"], x)
    ctx.rule = ("case = file set from (seed,i): random chars, token soup, grammar-derived programs, truncated / text-mutated / "
                "semantically mutated corpus files (names, numbers, types, operators, attributes, parameters, virtual fields, "
                "depth<=40 expressions), multi-file import sets (missing, cyclic, self, broken), 100-290-field structs; "
                "distinct_nontrivial = distinct (verdict, main text) among inputs that got past random noise kinds")
    ctx.assumptions = ["inputs within the property's practical bound (<= ~300 lines, nesting <= 40)",
                       "a 60 s per-case watchdog firing is inconclusive, not a violation"]
    return ctx.finish(min_evals=n // 2, require=("status_rejected", "status_accepted", "cli_helper_runs",
                                                 "embossc_process_runs", "kind_semantic_mutant"))


def replay(path):
    common.repo_on_path()
    with open(path) as f:
        rp = json.load(f)["replay"]
    st, viol = monitor_compile(rp["files"], rp["main"])
    with common.Scratch("c16r") as s:
        viol += monitor_cli_inprocess(rp["files"], rp["main"], s)
    for mech, what in viol:
        print("VIOLATION property=C16 replay=%s\n  %s: %s" % (path, mech, what))
    print("status:", st)
    return 1 if viol else 0
