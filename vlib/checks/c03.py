"""C03 — field writes are range-checked, read back exactly, and touch only
their own bits.

Conservation monitor on recorded (before, leaf, value, could, try, after)
tuples from the real generated code: CouldWriteValue / TryToWrite against the
model's exact range + [requires]; after success Read() == v and
(after XOR before) AND NOT mask(field) == 0; after failure after == before.
mask(field) is computed by vlib.refsem from the spec (absolute bit addresses
through nesting and byte order).  Aliases and add/subtract virtual fields are
inverted by the model.
"""

import json

from vlib import common, cppdrv, cppsuite, refsem, writemodel

LEVEL = "exploration"


def cppdrv_first_error(err):
    import re as _re
    m = _re.search(r"error: (.*)", err or "")
    return _re.sub(r"'[^']*'", "'X'", m.group(1))[:100] if m else "unknown"


def candidate_values(rng, kind, exp_probe):
    """Values in and just outside the field's range (exp_probe: dict from a
    model evaluation with value 0, or None)."""
    vals = [0, 1, -1, 2, 3, 9, 10, 15, 16, 99, 100, 127, 128, 255, 256, 32767, 32768, 65535, 65536]
    if exp_probe:
        nb = exp_probe["nbits"]
        vals += [(1 << nb) - 1, 1 << nb, (1 << (nb - 1)) - 1, 1 << (nb - 1), -(1 << (nb - 1)), -(1 << (nb - 1)) - 1,
                 10 ** (nb // 4) * 2 ** (nb % 4) - 1, 10 ** (nb // 4) * 2 ** (nb % 4)]
    vals += [2 ** 31 - 1, 2 ** 31, -2 ** 31, -2 ** 31 - 1, 2 ** 32 - 1, 2 ** 32, 2 ** 63 - 1, -2 ** 63, 2 ** 63, 2 ** 64 - 1]
    vals += [rng.getrandbits(rng.choice([3, 8, 16, 32, 63])) * rng.choice([1, 1, -1]) for _ in range(3)]
    if kind == "vint":
        vals = [v for v in vals if -2 ** 31 <= v < 2 ** 31]
    return [v for v in vals if -2 ** 63 <= v < 2 ** 64]


def module_case(arg):
    common.repo_on_path()
    out = {"idx": arg["idx"], "viol": [], "cases": 0, "accepted_writes": 0, "rejected_writes": 0, "abstained": 0,
           "aborts": [], "distinct": [], "built": False, "sample": None, "leaf_kinds": {}, "rejected": 0, "bits_checked": 0}
    profile = arg.get("profile")
    if profile is None and arg["idx"] % 3 == 1:
        profile = {"union_bias": True}  # every third module: tagged unions over twin sub-structures
    gm = cppsuite.gen_module(arg["seed"], "mod", arg["idx"], profile)
    out["rejected"] = len(gm["rejected"])
    if gm["m"] is None:
        return out
    m = gm["m"]
    flavour = "asan-portable" if arg["idx"] % 3 == 1 else "asan"
    with common.Scratch("c03") as d:
        built = cppsuite.Built(d, gm)
        b = built.build("write", flavour)
        if b is None:
            # a header + driver that does not compile is C07's observation; here the module is a counted skip
            out["compile_failed"] = cppdrv_first_error(built.build_errors[("write", flavour)])
            return out
        out["built"] = True
        tops = [s for s in m.structs if s.kind == "struct"]
        rng = common.case_rng(arg["seed"], "C03cases", arg["idx"])
        lines, meta = [], {}
        ci = 0
        for si, s in enumerate(tops):
            leaves = cppdrv.writable_leaves(m, s)
            if not leaves:
                continue
            for _rep in range(arg["buffers_per_struct"]):
                params = cppsuite.rand_params(rng, s)
                data = cppsuite.rand_buffer(rng, m, s, params)
                pl = " ".join(str(x) for x in params)
                for li in rng.sample(range(len(leaves)), min(len(leaves), 6)):
                    leaf = leaves[li]
                    v0 = refsem.view(m, s.name, cppsuite.pdict(s, params), bytearray(data))
                    probe = writemodel.expected_write(v0, leaf, 0)
                    for val in rng.sample(candidate_values(rng, leaf["kind"], probe), 7):
                        sgn = "s" if (val < 0 or (val < 2 ** 63 and rng.random() < 0.5)) else "u"
                        cid = "w%d" % ci
                        ci += 1
                        lines.append("%s write %d %d %s %s %d %s %d" % (cid, si, len(params), pl, data.hex() or "-", li, sgn, val))
                        meta[cid] = (si, params, data, li, val)
        results, failures = cppsuite.run_all(b, lines)
        for f in failures:
            kind, detail = cppdrv.summarize_report(f)
            mm = meta.get(f["case"])
            out["aborts"].append({"kind": kind, "detail": detail, "case": f["case"], "report": f["report"][-1200:],
                                  "meta": [mm[0], mm[1], mm[2].hex(), mm[3], mm[4]] if mm else None, "coords": gm["coords"]})
        for cid, (si, params, data, li, val) in meta.items():
            r = results.get(cid)
            if r is None or "#partial" in r:
                continue
            s = tops[si]
            leaf = cppdrv.writable_leaves(m, s)[li]
            eff = val
            if "arg" in r:
                eff = int(r["arg"])
            elif leaf["kind"] == "flag":
                eff = val & 1
            view = refsem.view(m, s.name, cppsuite.pdict(s, params), bytearray(data))
            exp = writemodel.expected_write(view, leaf, eff)
            out["cases"] += 1
            out["leaf_kinds"][leaf["kind"]] = out["leaf_kinds"].get(leaf["kind"], 0) + 1
            if exp is None:
                out["abstained"] += 1
                continue
            got_after = bytes.fromhex(r["buf"]) if r.get("buf", "-") != "-" else b""
            problems = []
            if r.get("could") != ("1" if exp["could"] else "0"):
                problems.append(("could", exp["could"], r.get("could")))
            if r.get("try") != ("1" if exp["try"] else "0"):
                problems.append(("try", exp["try"], r.get("try")))
            if got_after != exp["after"]:
                # conservation: which bits changed outside the mask?
                outside = []
                maskset = set(exp["mask"])
                for i, (x, y) in enumerate(zip(data, got_after)):
                    diff = x ^ y
                    for bit in range(8):
                        if diff >> bit & 1 and (i * 8 + bit) not in maskset:
                            outside.append(i * 8 + bit)
                problems.append(("buffer", exp["after"].hex(), got_after.hex() + (" bits-outside-field=%r" % outside[:8] if outside else "")))
            if exp["try"] and r.get("try") == "1":
                out["accepted_writes"] += 1
                out["bits_checked"] += len(data) * 8
                if r.get("ok") == "1" and leaf["kind"] != "float":
                    want = eff
                    if leaf["kind"] == "flag":
                        want = 1 if eff else 0
                    if r.get("val") != str(want):
                        problems.append(("readback", want, r.get("val")))
            else:
                out["rejected_writes"] += 1
            out["distinct"].append(hash((arg["idx"], si, li, exp["could"], exp["try"])))
            if problems:
                mech = "write-differs:" + problems[0][0]
                if exp["signed_enum_negative"] or (leaf["kind"] == "enum" and eff < 0) or \
                        cppsuite.signed_enum_taint(m, s, params, data):
                    # ... or some other field of the structure (a tag deciding the leaf's presence) is a narrow signed
                    # enum holding a negative value, which the implementation reads zero-extended
                    mech = "signed-enum-narrow-field-zero-extended"
                elif leaf["kind"] == "vint" and leaf.get("target_kind") in ("bcd", "uint", "int") and not exp["could"] \
                        and r.get("could") == "1":
                    # the generated CouldWriteValue / TryToWrite of an add/subtract virtual field cast the inverse
                    # (c - v, v - c, v + c) to the destination view's C++ ValueType BEFORE asking the destination
                    # whether it could hold it: an inverse outside that type wraps into range and is accepted
                    cont = 8
                    while cont < exp["nbits"]:
                        cont *= 2
                    lo_c, hi_c = (-(1 << (cont - 1)), (1 << (cont - 1)) - 1) if leaf.get("target_kind") == "int" else (0, (1 << cont) - 1)
                    if not (lo_c <= exp["tval"] <= hi_c):
                        mech = "transform-virtual-narrows-inverse-to-destination-value-type"
                out["viol"].append({"mech": mech, "what": "struct %s params %r bytes %s leaf %s value %d: %s" % (
                    s.name, params, data.hex(), ".".join(str(x) for _k, x in leaf["path"]), eff,
                    "; ".join("%s expected %s got %s" % p for p in problems)),
                    "coords": gm["coords"], "struct": s.name, "params": params, "data": data.hex(), "leaf": li, "value": val,
                    "text": gm["text"]})
            elif out["sample"] is None and exp["try"]:
                out["sample"] = {"struct": s.name, "leaf": ".".join(str(x) for _k, x in leaf["path"]), "value": eff,
                                 "before": data.hex(), "after": got_after.hex(), "mask_bits": exp["mask"][:16]}
    out["viol"] = common.cap_by_mech(out["viol"])
    return out


def run(ctx):
    quick = ctx.tier == "quick"
    nmod = 20 if quick else 200
    common.repo_on_path()
    with common.Scratch("c03canary") as d:
        ok, detail = cppdrv.liveness_canary(d)
    ctx.extra["sanitizer_canary"] = detail
    if not ok:
        raise common.Inconclusive("sanitizer liveness canary failed: " + detail)
    args = [{"seed": ctx.seed, "idx": i, "buffers_per_struct": 5 if quick else 12} for i in range(nmod)]
    res = common.run_cases("c03", "module_case", args, timeout=1500)
    kinds = {}
    for a, (st, val) in zip(args, res):
        if st != "ok" or not val.get("ok"):
            ctx.inconclusive_cases += 100
            ctx.evaluations += 100
            ctx.count("module_failed_" + st)
            if st == "ok":
                print("worker error:", val.get("err"), val.get("tb", "")[-800:])
            continue
        v = val["val"]
        ctx.count("modules")
        ctx.count("modules_built", 1 if v["built"] else 0)
        if v.get("compile_failed"):
            ctx.count("modules_skipped_driver_does_not_compile")
            ctx.extra.setdefault("compile_failures", {}).setdefault(v["compile_failed"], 0)
            ctx.extra["compile_failures"][v["compile_failed"]] += 1
        ctx.evaluations += v["cases"]
        ctx.count("write_attempts_judged", v["cases"] - v["abstained"])
        ctx.count("model_abstained", v["abstained"])
        ctx.count("writes_accepted", v["accepted_writes"])
        ctx.count("writes_rejected", v["rejected_writes"])
        ctx.count("buffer_bits_checked_for_conservation", v["bits_checked"])
        for k, c in v["leaf_kinds"].items():
            kinds[k] = kinds.get(k, 0) + c
        for h in v["distinct"]:
            ctx.distinct.add(h)
        if v["sample"]:
            ctx.sample(v["sample"], limit=4)
        for ab in v["aborts"]:
            ctx.count("driver_aborts")
            ctx.inconclusive_cases += 1
            ctx.extra.setdefault("driver_aborts", []).append({"kind": ab["kind"], "detail": ab["detail"]})
        for x in v["viol"]:
            ctx.violation("C03:" + x["mech"], x["what"], x)
    ctx.extra["leaf_kinds"] = kinds
    ctx.rule = ("case = (module, structure, parameters, initial buffer, writable leaf incl. nested / array element / anonymous bits "
                "member / alias / add-subtract virtual, candidate value at and around the range edges); distinct_nontrivial = "
                "distinct (module, structure, leaf, could, try)")
    ctx.assumptions = ["argument narrowing for Bcd/enum/virtual leaves happens in the driver (C++ cast) and the narrowed value "
                       "is what the model judges", "float writes are judged by bit pattern of the buffer only"]
    return ctx.finish(min_evals=nmod * 40, require=("modules_built", "writes_accepted", "writes_rejected",
                                                    "buffer_bits_checked_for_conservation"))


def replay(path):
    common.repo_on_path()
    from vlib import embc
    with open(path) as f:
        rp = json.load(f)["replay"]
    m, text = cppsuite.regen(rp["coords"])
    ir, _d, errors = embc.parse({"m.emb": text})
    if errors:
        print("module is rejected now")
        return 0
    hdr, _e = embc.header(ir)
    s = m.struct(rp["struct"])
    tops = [x for x in m.structs if x.kind == "struct"]
    with common.Scratch("c03r") as d:
        built = cppsuite.Built(d, {"m": m, "header": hdr})
        b = built.build("write")
        if b is None:
            print("VIOLATION property=C03 replay=%s\n  driver does not compile" % path)
            return 1
        val = rp["value"]
        line = "r write %d %d %s %s %d %s %d" % (tops.index(s), len(rp["params"]), " ".join(map(str, rp["params"])),
                                                 rp["data"] or "-", rp["leaf"], "s" if val < 2 ** 63 else "u", val)
        res, fails = cppsuite.run_all(b, [line])
        print(res, [cppdrv.summarize_report(f) for f in fails])
        leaf = cppdrv.writable_leaves(m, s)[rp["leaf"]]
        r = res.get("r", {})
        eff = int(r["arg"]) if "arg" in r else val
        exp = writemodel.expected_write(refsem.view(m, s.name, cppsuite.pdict(s, rp["params"]), bytearray.fromhex(rp["data"])), leaf, eff)
        print("expected:", exp and {k: (v.hex() if isinstance(v, bytes) else v) for k, v in exp.items() if k != "mask"})
        if exp and (r.get("could") != ("1" if exp["could"] else "0") or r.get("try") != ("1" if exp["try"] else "0")
                    or (r.get("buf", "-") != "-" and bytes.fromhex(r["buf"]) != exp["after"])):
            print("VIOLATION property=C03 replay=%s" % path)
            return 1
    print("no difference on replay")
    return 0
