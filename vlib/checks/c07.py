"""C07 — every module the compiler accepts yields a header that compiles and
instantiates.

Oracle: g++-12 / clang++-14 (-fsyntax-only, -std=c++11/14/17, enum traits on
and off) on the header(s) the real compiler emits plus a full-instantiation
driver emitted from the final IR's *names*: explicit instantiation of every
generated view class (which instantiates every member: Ok, IsComplete, size
methods, every accessor and has_ method, virtual-field view classes), calls of
the member templates (Equals, UncheckedEquals, TryToCopyFrom, WriteToString,
UpdateFromText), every enumerator in every spelling and the enum helpers, and a
static_assert per compile-time constant against the value in the IR.
Workload: identifier-shape generator (names next to the generated members'
names, trailing underscores, has_ prefixes, kCamelCase collisions, namespaces,
parameters, inline and nested types, imports), semantic-generator modules,
corpus, C13/C14 positive modules.
"""

import json
import os
import re
import subprocess

from vlib import common, embc, embgen, embspec, textgen

LEVEL = "exploration"

CONFIGS = [("g++-12", "c++11"), ("clang++-14", "c++14"), ("g++-12", "c++17"), ("clang++-14", "c++11"), ("g++-12", "c++14"),
           ("clang++-14", "c++17")]

BUF = "::emboss::support::ReadWriteContiguousBuffer"
BITBUF = "::emboss::support::BitBlock</**/ ::emboss::support::LittleEndianByteOrderer</**/ %s>, 64>" % BUF


def module_namespace(mod):
    for a in mod.get("attribute", []):
        if a.get("name", {}).get("text") == "namespace" and a.get("back_end", {}).get("text") == "cpp":
            return a["value"]["string_constant"]["text"].strip(":")
    return "emboss_generated_code"


def const_of(e):
    t = e.get("type", {})
    if "integer" in t and t["integer"].get("modulus") == "infinity":
        return int(t["integer"]["modular_value"])
    if "boolean" in t and "value" in t["boolean"]:
        return bool(t["boolean"]["value"])
    return None


def k_camel(name):
    return "k" + "".join(w.capitalize() for w in name.split("_"))


def enum_spellings(mod, type_chain, value):
    """C++ spellings of an enum value from the (already normalised) attributes."""
    for scope in [value] + list(reversed(type_chain)) + [mod]:
        for a in scope.get("attribute", []):
            if a.get("name", {}).get("text") == "enum_case" and a.get("back_end", {}).get("text") == "cpp":
                if scope is value or a.get("is_default"):
                    cases = [c.strip() for c in a["value"]["string_constant"]["text"].split(",")]
                    return [value["name"]["name"]["text"] if c == "SHOUTY_CASE" else k_camel(value["name"]["name"]["text"]) for c in cases]
    return [value["name"]["name"]["text"]]


BUILTIN_CPP = {"$size_in_bytes": "IntrinsicSizeInBytes", "$size_in_bits": "IntrinsicSizeInBits", "$max_size_in_bytes": "MaxSizeInBytes",
               "$max_size_in_bits": "MaxSizeInBits", "$min_size_in_bytes": "MinSizeInBytes", "$min_size_in_bits": "MinSizeInBits"}


def driver_from_ir(ir, traits):
    """Returns C++ source instantiating everything named in module 0."""
    from compiler.util import ir_data_utils
    d = ir_data_utils.IrDataSerializer(ir).to_dict(exclude_none=True)
    mod = d["module"][0]
    ns = module_namespace(mod)
    L = ['#include "%s.h"' % mod["source_file_name"], "#include <string>", "#include <sstream>", ""]
    uses = []
    counts = {"views": 0, "enums": 0, "constants": 0, "enumerators": 0}

    def visit(t, chain):
        name = t["name"]["name"]["text"]
        scope = "::" + "::".join([ns] + [c["name"]["name"]["text"] for c in chain])
        if "structure" in t:
            unit_bits = int(t.get("addressable_unit", 8)) == 1
            store = BITBUF if unit_bits else BUF
            cls = "%s::Generic%sView" % (scope, name)
            L.append("template class %s</**/ %s>;" % (cls, store))
            counts["views"] += 1
            fn = "use_%d" % len(uses)
            uses.append(fn)
            L.append("static void %s(%s</**/ %s> a, %s</**/ %s> b) {" % (fn, cls, store, cls, store))
            L.append("  (void)a.Equals(b); (void)a.UncheckedEquals(b);")
            if not unit_bits:
                # copying is an operation of byte-oriented views; text I/O needs the enum traits
                L.append("  (void)a.TryToCopyFrom(b); a.UncheckedCopyFrom(b);")
                if traits:
                    L.append("  std::string s_ = ::emboss::WriteToString(a, ::emboss::TextOutputOptions()); (void)::emboss::UpdateFromText(a, s_);")
            L.append("  (void)a.SizeIsKnown(); (void)a.IsComplete(); (void)a.Ok();")
            L.append("}")
            for f in t["structure"].get("field", []):
                if "read_transform" in f and f.get("existence_condition", {}).get("boolean_constant", {}).get("value") is True:
                    v = const_of(f["read_transform"])
                    fname = f["name"]["name"]["text"]
                    cpp = BUILTIN_CPP.get(fname, fname if not fname.startswith("$") else None)
                    if v is not None and cpp is not None and isinstance(v, int) and not isinstance(v, bool):
                        lit = "(-9223372036854775807LL - 1)" if v == -(1 << 63) else ("%dULL" % v if v >= (1 << 63) else "%dLL" % v)
                        if -(1 << 63) <= v < (1 << 64):
                            L.append("static_assert(%s::%s::%s() == %s, \"constant %s.%s differs from the front end's value\");" % (
                                scope, name, cpp, lit, name, fname))
                            counts["constants"] += 1
        elif "enumeration" in t:
            counts["enums"] += 1
            en = "%s::%s" % (scope, name)
            fn = "use_%d" % len(uses)
            uses.append(fn)
            L.append("static void %s() {" % fn)
            for v in t["enumeration"].get("value", []):
                ev = const_of(v.get("value", {}))
                for sp in enum_spellings(mod, chain + [t], v):
                    L.append("  (void)%s::%s;" % (en, sp))
                    counts["enumerators"] += 1
                    if isinstance(ev, int) and not isinstance(ev, bool) and -(1 << 63) <= ev < (1 << 64):
                        if ev >= (1 << 63):
                            L.append("  static_assert(static_cast<unsigned long long>(%s::%s) == %dULL, \"enumerator differs from the "
                                     "front end's value\");" % (en, sp, ev))
                        else:
                            lit = "(-9223372036854775807LL - 1)" if ev == -(1 << 63) else "%dLL" % ev
                            L.append("  static_assert(static_cast<long long>(%s::%s) == %s, \"enumerator differs from the front end's "
                                     "value\");" % (en, sp, lit))
            if traits:
                L.append("  %s r_ = static_cast</**/ %s>(0); (void)TryToGetEnumFromName(\"X\", &r_); (void)TryToGetNameFromEnum(r_); "
                         "(void)EnumIsKnown(r_); std::ostringstream os_; os_ << r_;" % (en, en))
            L.append("}")
        for st in t.get("subtype", []):
            visit(st, chain + [t])

    for t in mod.get("type", []):
        visit(t, [])
    L.append("int main() { return 0; }")
    return "\n".join(L), counts


def shape_module(rng):
    """Identifier shapes next to what the generated code itself declares."""
    tricky_fields = ["backing", "backing_x", "view", "view_x", "ok", "read", "write", "size", "size_in_bytes_x", "is_complete", "equals",
                     "copy_from", "value", "k", "emboss", "result", "other", "x", "x_", "x__", "y_1", "y1", "has", "hasx", "p", "p_",
                     "parameters_initialized", "storage", "begin", "end", "data", "text", "to_string", "stream", "options", "type",
                     "intrinsic_size_in_bytes", "max_size", "min_size", "update_from_text_stream", "is_aggregate", "unchecked_read",
                     "backing_", "has_x", "has_p", "parameters_initialized_", "view_", "emboss_x"]
    from vlib.checks import c14
    rw = set(c14.reserved_words())
    tricky_fields = [f for f in tricky_fields if f not in rw]
    lines = ['[$default byte_order: "%s"]' % rng.choice(["LittleEndian", "BigEndian"])]
    ns = rng.choice([None, "a", "a::b", "::absx::ns", "emboss", "x::y::z::w"])
    if ns:
        lines.append('[(cpp) namespace: "%s"]' % ns)
    if rng.random() < 0.4:
        lines.append('[(cpp) $default enum_case: "%s"]' % rng.choice(["kCamelCase", "SHOUTY_CASE, kCamelCase"]))
    lines += ["", "enum Kind:", "  FIRST_VALUE = 0", "  SECOND = 1", "  VV2 = 2", ""]
    if rng.random() < 0.3:
        # names that differ only by an underscore (distinct in Emboss; may meet again under kCamelCase)
        lines += ["enum Near:", "  AB_1 = 1", "  AB1 = 2", "  A_B1 = 3", ""]
    if rng.random() < 0.25:
        lines += ["enum Odd:", "  TRUE_ = 1", "  K_FOO = 2", "  KFOO = 3", ""]
    nstructs = rng.randint(1, 3)
    for si in range(nstructs):
        params = ""
        pnames = []
        if rng.random() < 0.4:
            pnames = rng.sample(["p", "x", "value", "n_"], rng.randint(1, 2))
            params = "(%s)" % ", ".join("%s: UInt:8" % p if rng.random() < 0.7 else "%s: Kind" % p for p in pnames)
        lines.append("struct Shape%d%s:" % (si, params))
        if rng.random() < 0.4:
            lines += ["  struct Inner:", "    0 [+1]  UInt  v", "  enum Sub:", "    ONLY = 1"]
        names = [n for n in rng.sample(tricky_fields, rng.randint(2, 7)) if n not in pnames]
        off = 0
        for n in names:
            k = rng.random()
            if k < 0.5:
                lines.append("  %d [+1]  UInt  %s" % (off, n))
            elif k < 0.65:
                lines.append("  %d [+1]  Kind  %s" % (off, n))
            elif k < 0.8:
                lines.append("  %d [+1]  bits:" % off)
                lines.append("    0 [+4]  UInt  %s" % n)
                lines.append("    4 [+1]  Flag  %s_flag" % n)
            elif k < 0.9:
                lines.append("  %d [+1]  enum  %s:" % (off, n + "_inl"))
                lines.append("    INL_A = 1")
            else:
                lines.append("  let %s = %d" % (n, rng.choice([0, 7, 2 ** 31, 2 ** 32, 2 ** 63 - 1, -(2 ** 63), 2 ** 64 - 1, -1])))
                continue
            off += 1
        if off == 0:
            lines.append("  0 [+1]  UInt  filler")
        if si and rng.random() < 0.5 and not params:
            pass
        lines.append("")
    # declaration order is free: chains of virtual fields written top-down (each mentions something declared LATER),
    # ending in a writable physical field, a non-invertible expression, a constant or a parameter
    if rng.random() < 0.6:
        lines.append("struct Order(qq: UInt:8):")
        k = 0
        for _c in range(rng.randint(1, 3)):
            depth = rng.randint(1, 3)
            names = ["ch%d_%d" % (k, j) for j in range(depth + 1)]
            k += 1
            for j in range(depth):
                form = rng.choice(["%s", "%s + 1", "%s - 3", "7 - %s", "2 + %s", "(%s - 1) + 4"])
                lines.append("  let %s = %s" % (names[j], form % names[j + 1]))
            lines.append("  let %s = %s" % (names[depth], rng.choice(["raw", "raw", "raw * 2", "raw + raw", "9", "qq", "$max(raw, 3)"])))
        lines += ["  0 [+1]  UInt  raw", ""]
    # an empty struct and a struct holding the others
    lines += ["struct Empty:", "  -- nothing here", ""]
    return "\n".join(lines) + "\n"


def edge_value(rng):
    k = rng.choice([7, 8, 15, 16, 31, 31, 32, 32, 63, 64])
    v = rng.choice([1, -1]) * (1 << k) + rng.choice([0, 0, -1, 1])
    return max(-(1 << 63), min((1 << 64) - 1, v))


def constants_module(rng):
    """Compile-time constants, enumerators and `tag == constant` conditions at the 2^k edges of the C++ integer
    types, written directly and as folded expressions: the driver static_asserts each against the front end's
    value (literal rendering has special cases exactly there)."""
    lines = ['[$default byte_order: "LittleEndian"]', ""]
    signed_vals, unsigned_vals = set(), set()
    for _ in range(rng.randint(3, 8)):
        v = edge_value(rng)
        (signed_vals if v < (1 << 63) else unsigned_vals).add(v)
    if rng.random() < 0.7:
        sv = sorted(signed_vals | {0})
        lines.append("enum Edge:")
        for i, v in enumerate(sv):
            lines.append("  EDGE_%d = %d" % (i, v))
        lines.append("")
    if unsigned_vals or rng.random() < 0.3:
        lines.append("enum Big:")
        for i, v in enumerate(sorted(unsigned_vals | {0, 2 ** 64 - 1})):
            lines.append("  BIG_%d = %d" % (i, v))
        lines.append("")
    lines.append("struct Consts:")
    lines.append("  0 [+8]  Int  tag")
    lines.append("  0 [+8]  UInt  utag")
    lines += ["  0 [+4]  UInt  u32", "  0 [+2]  UInt  u16", "  0 [+4]  Int  i32", "  0 [+1]  Int  i8"]
    # `?:` whose condition is a compile-time constant: the result has the range of the selected branch only
    for j in range(rng.randint(1, 4)):
        cnd = rng.choice(["true", "false", "(2 > 1)", "(1 == 2)", "(255 >= 256)"])
        a, b = rng.sample(["u32", "u16", "i32", "i8", "(-1)", "(-2147483649)", "4294967296", "0", "(u16 + 1)", "(i8 - 1)"], 2)
        lines.append("  let ch%d = %s ? %s : %s" % (j, cnd, a, b))
    off = 8
    for i in range(rng.randint(3, 9)):
        v = edge_value(rng)
        form = rng.random()
        if form < 0.5:
            e = str(v)
        elif form < 0.7:
            d = rng.choice([1, 2, 255, 65536])
            e = "%d + %d" % (v - d, d) if -(1 << 63) <= v - d else str(v)
        elif form < 0.85:
            e = "$max(%d, %d)" % (v, v - 1) if -(1 << 63) <= v - 1 else str(v)
        else:
            e = "(true ? %d : 0)" % v
        lines.append("  let c%d = %s" % (i, e))
        if rng.random() < 0.4 and -(1 << 63) <= v < (1 << 63):
            lines.append("  if tag == %d:" % v)
            lines.append("    %d [+1]  UInt  when_c%d" % (off, i))
            off += 1
        elif rng.random() < 0.2 and 0 <= v:
            lines.append("  if utag == %d:" % v)
            lines.append("    %d [+1]  UInt  when_u%d" % (off, i))
            off += 1
    lines.append("")
    return "\n".join(lines) + "\n"


def gen_case(rng, corpus):
    r = rng.random()
    if r < 0.15:
        return "constants", {"m.emb": constants_module(rng)}
    if r < 0.4:
        return "shape", {"m.emb": shape_module(rng)}
    if r < 0.7:
        return "embgen", {"m.emb": embspec.render_module(embgen.Gen(rng).gen_module())}
    good = [c for c in corpus if c[0].startswith("testdata/") and "/format/" not in c[0]]
    name, text = good[rng.randrange(len(good))]
    files = {"m.emb": text}
    for m in re.finditer(r'^\s*import\s+"([^"]*)"', text, re.M):
        for cname, ctext in corpus:
            if cname.endswith("/" + m.group(1)) or cname == m.group(1):
                files[m.group(1)] = ctext
    return "corpus:" + name, files


def first_error(stderr):
    m = re.search(r"error: (.*)", stderr)
    if not m:
        return "unknown"
    t = m.group(1).replace("‘", "'").replace("’", "'")
    # keep short quoted identifiers (function / member names), abstract long types
    t = re.sub(r"'([^']*)'", lambda q: "'%s'" % q.group(1) if len(q.group(1)) <= 45 and "<" not in q.group(1) else "'T'", t)
    t = re.sub(r"\d+", "N", t)
    return t[:120]


def classify(stderr, text=None):
    """Compiler-independent mechanism keys for the known shapes; otherwise
    the first error message."""
    errs = [l for l in stderr.split("\n") if "error:" in l]
    blob = " ".join(errs[:6])
    if "GenericArrayView" in stderr and ("WriteShorthandArrayCommentToTextStream" in blob or re.search(r"call to .*Equals", blob)):
        if re.search(r"GenericArrayView<[^;]*,\s*\d+U?L?,\s*\d+U?L?,\s*[\w:]+", stderr) or (
                text and re.search(r"[A-Z]\w*\([^)\n]+\)\s*\[", text)):
            return "array-of-parameterized-structs:Equals-and-text-output-do-not-compile"
    if "ReadIntegerFromTextStream" in stderr and re.search(r"cannot convert|no viable|assigning to", blob) and "emboss_text_util.h" in blob:
        return "writable-enum-virtual-field:text-input-does-not-compile"
    q = stderr.replace("\u2018", "'").replace("\u2019", "'")
    if re.search(r"duplicate member|conflicts with a previous declaration|redeclaration of", q) and \
            re.search(r"(::|member ')(backing_|parameters_initialized_|[a-z][a-z0-9_]*_)'", q):
        return "field-or-parameter-name-collides-with-generated-private-member"
    if re.search(r"redefinition of '(struct )?[\w:<>]*EmbossReservedValidatorFor\w+'", q):
        return "requires-validator-class-names-collide-for-field-names-differing-by-underscores"
    if re.search(r"cannot be overloaded|differ only in their return type", q) and (
            re.search(r"::has_\w+", q) or (text and re.search(r"\bhas_[a-z]\w*\b", text))):
        return "field-named-has_x-collides-with-generated-has_x-accessor"
    if re.search(r"(redefinition|redeclaration) of (enumerator )?'k[A-Z]\w*'", q):
        return "enum-value-names-collide-under-kCamelCase"
    if re.search(r"deleted (constructor|function).{0,200}EmbossReservedVirtual\w+View", q, re.S):
        return "alias-of-computed-virtual-field:default-constructs-a-view-without-default-constructor"
    return first_error(stderr)


def case(arg):
    common.repo_on_path()
    corpus = [c for c in textgen.corpus() if c[1].strip()]
    out = {"viol": [], "n": 0, "accepted": 0, "compiles": 0, "kinds": {}, "counts": {}, "samples": [], "distinct": []}
    from compiler.util import ir_data_utils
    with common.Scratch("c07") as d:
        for i in range(arg["start"], arg["start"] + arg["count"]):
            rng = common.case_rng(arg["seed"], "C07", i)
            kind, files = gen_case(rng, corpus)
            out["n"] += 1
            kk = kind.split(":")[0]
            out["kinds"][kk] = out["kinds"].get(kk, 0) + 1
            try:
                ir, _d, errors = embc.parse(files)
            except Exception:
                continue
            if errors:
                continue
            traits = rng.random() < 0.75
            wd = os.path.join(d, "c%d" % i)
            os.makedirs(wd)
            ok_hdr = True
            try:
                # one header per module (imports are separate headers)
                from compiler.util import ir_data
                for k, mod in enumerate(ir.module):
                    if not mod.source_file_name:
                        continue
                    sub = ir_data.EmbossIr(module=[mod] + [m for m in ir.module if m is not mod])
                    hdr, herr = embc.header(sub if k else ir, traits)
                    if herr:
                        ok_hdr = False
                        break
                    path = os.path.join(wd, mod.source_file_name + ".h")
                    os.makedirs(os.path.dirname(path), exist_ok=True)
                    with open(path, "w") as f:
                        f.write(hdr)
            except Exception:
                continue  # back-end crash: C16's subject
            if not ok_hdr:
                continue
            out["accepted"] += 1
            src, counts = driver_from_ir(ir, traits)
            for k, c in counts.items():
                out["counts"][k] = out["counts"].get(k, 0) + c
            with open(os.path.join(wd, "inst.cc"), "w") as f:
                f.write(src)
            cfgs = [CONFIGS[(i + j) % len(CONFIGS)] for j in range(arg["nconfigs"])]
            bad = None
            for cxx, std in cfgs:
                r = subprocess.run([cxx, "-std=" + std, "-fsyntax-only", "-I", common.REPO, "-I", wd, "-ftemplate-depth=400",
                                    os.path.join(wd, "inst.cc")], capture_output=True, text=True, timeout=600)
                if r.returncode != 0:
                    bad = (cxx, std, r.stderr)
                    break
            out["distinct"].append(hash((kk, traits, hash(files["m.emb"]) & 0xfff)))
            if bad is None:
                out["compiles"] += 1
                if not out["samples"] and kk == "shape":
                    out["samples"].append({"case": i, "text": files["m.emb"][:600], "configs": cfgs, "instantiated": counts})
            else:
                err = classify(bad[2], files["m.emb"])
                ctx_lines = [l for l in bad[2].split("\n") if "error:" in l][:3]
                out["viol"].append({"mech": "does-not-compile:" + err, "what": "%s -std=%s (traits %s): %s" % (bad[0], bad[1], traits, " | ".join(ctx_lines)[:700]),
                                    "files": files, "traits": traits, "case": i, "kind": kind})
            subprocess.run(["rm", "-rf", wd])
    out["viol"] = common.cap_by_mech(out["viol"])
    return out


def run(ctx):
    quick = ctx.tier == "quick"
    n = 96 if quick else 640
    per = 6 if quick else 30
    args = [{"seed": ctx.seed, "start": s, "count": min(per, n - s), "nconfigs": 2 if quick else 6} for s in range(0, n, per)]
    res = common.run_cases("c07", "case", args, timeout=3000)
    for a, (st, val) in zip(args, res):
        if st != "ok" or not val.get("ok"):
            ctx.inconclusive_cases += a["count"]
            ctx.evaluations += a["count"]
            if st == "ok":
                print("worker error:", val.get("err"), val.get("tb", "")[-800:])
            continue
        v = val["val"]
        ctx.evaluations += v["n"]
        ctx.count("modules_accepted", v["accepted"])
        ctx.count("modules_compiling", v["compiles"])
        for k, c in v["kinds"].items():
            ctx.count("kind_" + k, c)
        for k, c in v["counts"].items():
            ctx.count("instantiated_" + k, c)
        for h in v["distinct"]:
            ctx.distinct.add(h)
        for s in v["samples"]:
            ctx.sample(s, limit=3)
        for x in v["viol"]:
            ctx.violation("C07:" + x["mech"], x["what"], x)
    ctx.extra["configs"] = CONFIGS
    ctx.rule = ("case = accepted module (identifier-shape generator, semantic generator, testdata corpus) -> header(s) from the real "
                "back end + IR-driven full-instantiation driver, compiled with -fsyntax-only under rotating (compiler, -std) "
                "configurations, enum traits on/off; distinct_nontrivial = distinct (kind, traits, text hash)")
    ctx.assumptions = ["explicit instantiation with ReadWriteContiguousBuffer (bits: a 64-bit little-endian BitBlock) stands for "
                       "'instantiating every generated view'", "two compilers, three -std levels"]
    return ctx.finish(min_evals=n // 2, require=("modules_accepted", "modules_compiling", "instantiated_views", "instantiated_enumerators",
                                                 "instantiated_constants"))


def replay(path):
    with open(path) as f:
        rp = json.load(f)
    r = case({"seed": rp["seed"], "start": rp["replay"]["case"], "count": 1, "nconfigs": 6})
    for x in r["viol"]:
        print("VIOLATION property=C07 replay=%s\n  %s: %s" % (path, x["mech"], x["what"][:700]))
    return 1 if r["viol"] else 0
