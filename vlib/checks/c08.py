"""C08 — the LR(1) generator builds a parser for exactly the grammar's language.

Oracle: independent Earley recogniser (vlib.earley), derivation checker on the
returned Reduction tree, viable-prefix test for the error index (reduced
grammars only), bounded ambiguity finder (two leftmost derivations) against
`conflicts == {}`.
Workload: random small CFGs x ALL strings up to a length bound (trie walk),
plus the Emboss grammar with generated sentences and token mutants.
"""

import json

from vlib import common, earley, syngen

LEVEL = "exploration"

TEXTBOOK = [
    # (start, prods) — LR(1) but not LALR(1); expression grammars; epsilon; ambiguous ones
    ("S", [("S", ("a", "E", "c")), ("S", ("a", "F", "d")), ("S", ("b", "F", "c")), ("S", ("b", "E", "d")),
           ("E", ("e",)), ("F", ("e",))]),
    ("E", [("E", ("E", "+", "T")), ("E", ("T",)), ("T", ("T", "*", "F")), ("T", ("F",)),
           ("F", ("(", "E", ")")), ("F", ("i",))]),
    ("E", [("E", ("E", "+", "E")), ("E", ("i",))]),
    ("S", [("S", ("i", "S", "e", "S")), ("S", ("i", "S")), ("S", ("x",))]),
    ("S", [("S", ("A", "B")), ("A", ()), ("A", ("a", "A")), ("B", ()), ("B", ("b", "B"))]),
    ("S", [("S", ("L", "=", "R")), ("S", ("R",)), ("L", ("*", "R")), ("L", ("i",)), ("R", ("L",))]),
    ("S", [("S", ("A", "a")), ("S", ("b", "A", "c")), ("S", ("d", "c")), ("S", ("b", "d", "a")), ("A", ("d",))]),
    ("S", [("S", ("A",)), ("A", ("A",)), ("A", ("a",))]),
    ("S", [("S", ("a", "S", "a")), ("S", ())]),
    ("S", [("S", ("X", "X")), ("X", ("a", "X")), ("X", ("b",))]),
    ("S", [("S", ("A", "S")), ("S", ("b",)), ("A", ("S", "A")), ("A", ("a",))]),
    ("S", [("S", ("O", "a")), ("S", ("O", "b")), ("O", ())]),
    ("S", [("S", ("A", "x")), ("S", ("B", "y")), ("A", ("a",)), ("B", ("a",)), ("S", ("C",)), ("C", ("C", "c")), ("C", ())]),
]


def random_grammar(rng):
    r = rng.random()
    if r < 0.12:
        start, prods = rng.choice(TEXTBOOK)
        prods = list(prods)
        # perturb a textbook grammar sometimes
        if rng.random() < 0.5:
            nts = sorted(set(l for l, _ in prods))
            terms = sorted(set(s for _l, rr in prods for s in rr if s not in nts))
            k = rng.random()
            if k < 0.4 and len(prods) > 2:
                del prods[rng.randrange(len(prods))]
            elif k < 0.8:
                rhs = tuple(rng.choice(nts + terms + terms) for _ in range(rng.randint(0, 3)))
                prods.append((rng.choice(nts), rhs))
            else:
                i = rng.randrange(len(prods))
                l, rr = prods[i]
                if rr:
                    j = rng.randrange(len(rr))
                    prods[i] = (l, rr[:j] + (rng.choice(nts + terms),) + rr[j + 1:])
        if not any(l == start for l, _ in prods):
            prods.append((start, ()))
        # a grammar is a *set* of productions: listing one twice adds nothing
        return start, list(dict.fromkeys((l, tuple(r)) for l, r in prods))
    if r < 0.34:
        return layered_grammar(rng)
    if r < 0.56:
        return product_grammar(rng)
    n_nt = rng.randint(1, 5)
    n_t = rng.randint(1, 4)
    nts = ["N%d" % i for i in range(n_nt)]
    terms = list("abcd"[:n_t])
    style = rng.random()
    prods = []
    if style < 0.3:
        # simple LL(1) (s-grammar-like): alternatives begin with distinct terminals
        for n in nts:
            firsts = rng.sample(terms, rng.randint(1, len(terms)))
            for f in firsts:
                tail = tuple(rng.choice(nts + terms) for _ in range(rng.randint(0, 3)))
                prods.append((n, (f,) + tail))
            if rng.random() < 0.15 and len(firsts) < len(terms):
                prods.append((n, ()))
        # make sure something terminates: each nt gets a purely terminal alt
        for n in nts:
            if rng.random() < 0.7:
                used = set(r[0] for l, r in prods if l == n and r)
                free = [t for t in terms if t not in used]
                if free:
                    prods.append((n, (rng.choice(free),)))
    else:
        n_p = rng.randint(n_nt, min(10, n_nt * 3 + 1))
        for i in range(n_p):
            lhs = nts[i] if i < n_nt else rng.choice(nts)
            ln = rng.choice([0, 1, 1, 2, 2, 2, 3, 3, 4])
            p_nt = rng.choice([0.3, 0.45, 0.6])
            rhs = tuple(rng.choice(nts) if rng.random() < p_nt else rng.choice(terms) for _ in range(ln))
            prods.append((lhs, rhs))
    # dedupe (the generator takes a list; duplicates are legal but uninteresting)
    seen = set()
    out = []
    for p in prods:
        if p not in seen:
            seen.add(p)
            out.append(p)
    if rng.random() < 0.75:
        # reduce the grammar (drop unproductive / unreachable symbols) so that
        # most cases have a non-empty language and a judged error position
        e = earley.Earley(nts[0], out)
        if nts[0] in e.productive:
            keep = e.productive
            red = [(l, r) for l, r in out if l in keep and all((s in keep) or (s not in e.nonterminals) for s in r)]
            e2 = earley.Earley(nts[0], red)
            red = [(l, r) for l, r in red if l in e2.reachable]
            if red:
                out = red
    return nts[0], out


def product_grammar(rng):
    """LL(1)-by-construction grammars (every leaf uses a fresh terminal):
    sequences, optional parts, unit chains of varying depth.  Conflict-free by
    construction, so every string is judged; they exercise FIRST/closure
    fixpoints that need several rounds (nullable symbol first, then a symbol
    whose FIRST set arrives late through a unit chain)."""
    prods = []
    counter = [0, 0]

    def fresh_nt():
        counter[0] += 1
        return "P%d" % counter[0]

    def fresh_t():
        counter[1] += 1
        return "t%d" % counter[1]

    def gen(sym, depth):
        k = rng.random()
        if depth >= 3 or counter[1] >= 7 or k < 0.2:
            prods.append((sym, (fresh_t(),)))
        elif k < 0.45:
            prods.append((sym, (fresh_t(),)))
            prods.append((sym, ()))
        elif k < 0.65:
            child = fresh_nt()
            prods.append((sym, (child,)))
            gen(child, depth + 1)
        else:
            kids = [fresh_nt() for _ in range(rng.randint(2, 3))]
            prods.append((sym, tuple(kids)))
            for c in kids:
                gen(c, depth + 1)

    gen("P0", 0)
    rng.shuffle(prods)
    return "P0", prods


def layered_grammar(rng):
    """Larger grammars (up to 8 nonterminals) biased towards the shapes where
    FIRST/FOLLOW/closure computations need several rounds: nullable
    nonterminals at the start of a right-hand side, unit chains, a nonterminal
    used after another symbol, right-hand sides of 2-4 nonterminals."""
    n = rng.randint(3, 8)
    nts = ["N%d" % i for i in range(n)]
    terms = list("abcd"[:rng.randint(2, 4)])
    prods = []
    for i, a in enumerate(nts):
        later = nts[i + 1:]
        k = rng.randint(1, 3)
        for _ in range(k):
            r = rng.random()
            if not later or r < 0.25:
                rhs = (rng.choice(terms),) if rng.random() < 0.8 else ()
            elif r < 0.45:
                rhs = (rng.choice(later),)  # unit production
            elif r < 0.6:
                rhs = ()
            else:
                ln = rng.randint(2, 4)
                rhs = tuple(rng.choice(later) if rng.random() < 0.7 else rng.choice(terms) for _ in range(ln))
            prods.append((a, rhs))
        if rng.random() < 0.2 and later:
            prods.append((a, (rng.choice(terms), a) if rng.random() < 0.5 else (a, rng.choice(terms))))
    # make every nonterminal productive-ish: the last ones get terminals
    for a in nts[-2:]:
        prods.append((a, (rng.choice(terms),)))
    out = list(dict.fromkeys(prods))
    e = earley.Earley(nts[0], out)
    keep = e.productive
    if nts[0] in keep:
        red = [(l, r) for l, r in out if l in keep and all((s in keep) or (s not in e.nonterminals) for s in r)]
        e2 = earley.Earley(nts[0], red)
        red = [(l, r) for l, r in red if l in e2.reachable]
        if red:
            out = red
    return nts[0], out


def check_tree(tree, prodset, tokens, start):
    """Returns None if `tree` is a derivation of tokens from start, else text."""
    from compiler.front_end import lr1
    leaves = []
    stack = [tree]
    if not isinstance(tree, lr1.Reduction) or tree.symbol != start:
        return "root is %r, not a reduction to %r" % (getattr(tree, "symbol", tree), start)
    nodes = 0
    while stack:
        n = stack.pop()
        if isinstance(n, lr1.Reduction):
            nodes += 1
            key = (n.production.lhs, tuple(n.production.rhs))
            if key not in prodset:
                return "node production %r not in grammar" % (key,)
            if n.symbol != n.production.lhs:
                return "node symbol %r != production lhs %r" % (n.symbol, n.production.lhs)
            kids = tuple(c.symbol for c in n.children)
            if kids != tuple(n.production.rhs):
                return "children %r != rhs %r" % (kids, tuple(n.production.rhs))
            for c in reversed(n.children):
                stack.append(c)
        else:
            leaves.append(n)
    if len(leaves) != len(tokens) or any(a is not b for a, b in zip(leaves, tokens)):
        return "leaves %r != input %r" % ([l.symbol for l in leaves], [t.symbol for t in tokens])
    return None


def judge(parser, ear, prodset, start, symbols, reduced, tok_cache, chart=None, alive=True):
    """Runs the real parser on symbols and compares with the Earley verdict.
    Returns (mech, what) or None."""
    from compiler.util import parser_types
    tokens = []
    for i, s in enumerate(symbols):
        tokens.append(parser_types.Token(s, s, None))
    try:
        res = parser.parse(tokens)
    except Exception as e:
        return ("parse-exception:" + type(e).__name__, "parse(%r) raised %r" % (symbols, e))
    if chart is not None or not alive:
        accepted = alive and ear.accepts_chart(chart)
        viable = None
    else:
        accepted, viable = ear.recognize(symbols)
    if res.error is None:
        if not accepted:
            return ("accepts-nonsentence", "parser accepts %r which the grammar does not derive" % (symbols,))
        bad = check_tree(res.parse_tree, prodset, tokens, start)
        if bad:
            return ("tree-not-derivation", "for %r: %s" % (symbols, bad))
        return None
    if accepted:
        return ("rejects-sentence", "parser rejects %r (error index %d) which the grammar derives" % (
            symbols, res.error.index))
    if res.parse_tree is not None:
        return ("tree-with-error", "both tree and error returned")
    if reduced:
        if viable is None:
            _a, viable = ear.recognize(symbols)
        # first token that no sentence can continue with: index == viable prefix length
        if res.error.index != viable:
            return ("error-index", "for %r error raised at index %d, but longest viable prefix has length %d" % (
                symbols, res.error.index, viable))
        tok = res.error.token
        exp_sym = symbols[viable] if viable < len(symbols) else "$"
        if tok.symbol != exp_sym:
            return ("error-token", "error token %r but input has %r at index %d" % (tok.symbol, exp_sym, viable))
    return None


def case_grammar(arg):
    """One random grammar, all strings up to a bound."""
    common.repo_on_path()
    from compiler.front_end import lr1
    from compiler.util import parser_types
    rng = common.case_rng(arg["seed"], "C08", arg["i"])
    start, prods = random_grammar(rng)
    ear = earley.Earley(start, prods)
    reduced = ear.is_reduced()
    out = {"i": arg["i"], "viol": [], "strings": 0, "accepted": 0, "rejected": 0, "reduced": reduced,
           "nprods": len(prods), "conflicts": None, "ambiguous": False, "errpos": 0}
    try:
        g = lr1.Grammar(start, [parser_types.Production(l, tuple(r)) for l, r in prods])
        parser = g.parser()
    except Exception as e:
        out["viol"].append({"mech": "generator-exception:" + type(e).__name__, "what": repr(e),
                            "grammar": [start, prods]})
        return out
    out["conflicts"] = len(parser.conflicts)
    terms = sorted(ear.terminals)
    max_len = arg.get("max_len") or 7
    amb = earley.find_ambiguity(start, prods, min(max_len, 6))
    out["ambiguous"] = amb is not None
    if parser.conflicts:
        return out
    if amb is not None:
        out["viol"].append({"mech": "ambiguous-accepted",
                            "what": "grammar is ambiguous (two leftmost derivations of %r) but conflicts is empty" % (amb,),
                            "grammar": [start, prods]})
        return out
    prodset = set((l, tuple(r)) for l, r in prods)
    # bound the number of strings
    L = max_len
    while L > 1 and sum(len(terms) ** k for k in range(L + 1)) > arg.get("max_strings", 6000):
        L -= 1
    # DFS over the trie with incremental Earley charts
    stack = [((), ear.initial())]
    while stack:
        w, chart = stack.pop()
        out["strings"] += 1
        v = judge(parser, ear, prodset, start, list(w), reduced, None, chart=chart, alive=True)
        if v:
            out["viol"].append({"mech": v[0], "what": v[1], "grammar": [start, prods], "string": list(w)})
            if len(out["viol"]) > 5:
                break
        if ear.accepts_chart(chart):
            out["accepted"] += 1
        else:
            out["rejected"] += 1
        if len(w) >= L:
            continue
        for t in terms:
            nxt = ear.step(chart, t)
            if nxt is not None:
                stack.append((w + (t,), nxt))
            else:
                # dead prefix: check it and a couple of extensions, not the subtree
                for ext in ((), (rng.choice(terms),), tuple(rng.choice(terms) for _ in range(3))):
                    ww = list(w + (t,) + ext)
                    out["strings"] += 1
                    out["rejected"] += 1
                    out["errpos"] += 1
                    v = judge(parser, ear, prodset, start, ww, reduced, None)
                    if v:
                        out["viol"].append({"mech": v[0], "what": v[1], "grammar": [start, prods], "string": ww})
    # deeper sentences by random derivation (beyond the exhaustive length bound) + token mutants
    if ear.start in ear.productive and not out["viol"]:
        sg = syngen.SentenceGen(start, prods)
        for _ in range(arg.get("derived", 24)):
            sg.star_p = 0.5
            w = sg.derive(rng, rng.choice([4, 6, 8, 10]), max_tokens=30)
            if any(s in ear.nonterminals for s in w):
                continue
            cand = [w]
            if w:
                m = list(w)
                k = rng.randrange(len(m))
                op = rng.random()
                if op < 0.35:
                    del m[k]
                elif op < 0.7:
                    m.insert(k, rng.choice(terms))
                else:
                    m[k] = rng.choice(terms)
                cand.append(m)
            for ww in cand:
                out["strings"] += 1
                acc, _v = ear.recognize(ww)
                out["accepted" if acc else "rejected"] += 1
                out["derived"] = out.get("derived", 0) + 1
                v = judge(parser, ear, prodset, start, ww, reduced, None)
                if v:
                    out["viol"].append({"mech": v[0], "what": v[1], "grammar": [start, prods], "string": ww})
    if arg["i"] % 50 == 0:
        out["sample"] = {"grammar": [start, prods], "reduced": reduced, "strings": out["strings"],
                         "accepted": out["accepted"], "max_len": L}
    return out


_EMBOSS = {}


def _emboss_parser():
    if "p" not in _EMBOSS:
        common.repo_on_path()
        from compiler.front_end import lr1, module_ir
        prods = [(str(p.lhs), tuple(p.rhs)) for p in module_ir.PRODUCTIONS]
        g = lr1.Grammar(module_ir.START_SYMBOL, list(module_ir.PRODUCTIONS))
        _EMBOSS["p"] = g.parser()
        _EMBOSS["prods"] = prods
        _EMBOSS["ear"] = earley.Earley(module_ir.START_SYMBOL, prods)
        _EMBOSS["gen"] = syngen.SentenceGen(module_ir.START_SYMBOL, prods)
        _EMBOSS["start"] = module_ir.START_SYMBOL
    return _EMBOSS


def case_emboss(arg):
    """Sentences of the Emboss grammar and token-level mutants, fresh parser."""
    E = _emboss_parser()
    parser, ear, gen = E["p"], E["ear"], E["gen"]
    out = {"viol": [], "strings": 0, "accepted": 0, "rejected": 0, "conflicts": len(parser.conflicts)}
    if parser.conflicts:
        out["viol"].append({"mech": "emboss-grammar-conflicts", "what": "%d conflicts" % len(parser.conflicts)})
        return out
    prodset = set(E["prods"])
    terms = sorted(ear.terminals)
    reduced = ear.is_reduced()
    for i in range(arg["start"], arg["start"] + arg["count"]):
        rng = common.case_rng(arg["seed"], "C08e", i)
        gen.star_p = rng.choice([0.3, 0.5, 0.6])
        syms = gen.derive(rng, rng.choice([8, 10, 12, 16, 20]), max_tokens=120)
        variants = [syms]
        for _ in range(3):
            m = list(syms)
            for _k in range(rng.randint(1, 2)):
                op = rng.random()
                if m and op < 0.3:
                    del m[rng.randrange(len(m))]
                elif op < 0.6:
                    m.insert(rng.randint(0, len(m)), rng.choice(terms))
                elif m and op < 0.8:
                    m[rng.randrange(len(m))] = rng.choice(terms)
                elif len(m) > 1:
                    a, b = rng.randrange(len(m)), rng.randrange(len(m))
                    m[a], m[b] = m[b], m[a]
            variants.append(m)
        for v in variants:
            out["strings"] += 1
            r = judge(parser, ear, prodset, E["start"], v, reduced, None)
            acc, _ = ear.recognize(v)
            out["accepted" if acc else "rejected"] += 1
            if r:
                out["viol"].append({"mech": "emboss:" + r[0], "what": r[1], "string": v})
    out["reduced"] = reduced
    return out


def run(ctx):
    quick = ctx.tier == "quick"
    n_gram = 6000 if quick else 80000
    n_emb = 640 if quick else 12000
    args = [("case_grammar", {"seed": ctx.seed, "i": i, "max_len": 7 if quick else 8,
                              "max_strings": 5000 if quick else 9000}) for i in range(n_gram)]
    per = 40 if quick else 200
    eargs = [("case_emboss", {"seed": ctx.seed, "start": s, "count": min(per, n_emb - s)})
             for s in range(0, n_emb, per)]
    # two pools: emboss cases need a 2 s parser build per worker
    import threading
    res_e = []
    t = threading.Thread(target=lambda: res_e.extend(
        common.run_cases("c08", "case_emboss", [a for _f, a in eargs], timeout=900, jobs=4 if quick else 6)))
    t.start()
    res_g = common.run_cases("c08", "case_grammar", [a for _f, a in args], timeout=300, jobs=common.NCPU - 4)
    t.join()
    for (fn, a), (st, val) in list(zip(args, res_g)) + list(zip(eargs, res_e)):
        if st != "ok" or not val.get("ok"):
            ctx.inconclusive_cases += 1
            ctx.evaluations += 1
            ctx.count("case_failed_" + st)
            if st == "ok":
                print("worker error:", val.get("err"), val.get("tb", "")[-600:])
            continue
        v = val["val"]
        ctx.evaluations += 1
        ctx.count("strings_judged", v["strings"])
        ctx.count("strings_accepted", v["accepted"])
        ctx.count("strings_rejected", v["rejected"])
        ctx.count("strings_from_derivations", v.get("derived", 0))
        if fn == "case_grammar":
            ctx.count("grammars")
            if v["conflicts"]:
                ctx.count("grammars_with_conflicts")
            elif v["conflicts"] == 0:
                ctx.count("grammars_conflict_free")
                if v["accepted"] >= 2 and v["rejected"] >= 2:
                    ctx.nontrivial(("g", v["i"]))
            if v["ambiguous"]:
                ctx.count("grammars_found_ambiguous")
            if v["reduced"] and v["conflicts"] == 0:
                ctx.count("grammars_reduced_conflict_free")
                ctx.count("error_position_judged", v["rejected"])
            if "sample" in v:
                ctx.sample(v["sample"])
        else:
            ctx.count("emboss_batches")
            ctx.count("emboss_strings", v["strings"])
            ctx.count("emboss_accepted", v["accepted"])
            if v["accepted"] and v["rejected"]:
                ctx.nontrivial(("e", a["start"]))
        for x in v["viol"]:
            ctx.violation("C08:" + x["mech"], x["what"], x)
    ctx.rule = ("case = one random CFG (<=5 nonterminals, <=4 terminals, <=10 productions, textbook seeds and "
                "perturbations) with every string up to the length bound walked as a trie against an incremental "
                "Earley chart, or a batch of Emboss-grammar sentences + token mutants; non-trivial = conflict-free "
                "grammar with >=2 accepted and >=2 rejected strings / Emboss batch with both verdicts")
    ctx.assumptions = ["vlib/earley.py is a correct recogniser", "error-index clause judged for reduced grammars only",
                       "ambiguity search is bounded (length<=6): ambiguous grammars beyond it are not detected"]
    return ctx.finish(min_evals=(n_gram + len(eargs)) // 2,
                      require=("grammars_conflict_free", "grammars_with_conflicts", "strings_accepted",
                               "strings_rejected", "emboss_accepted", "error_position_judged",
                               "grammars_found_ambiguous"))


def replay(path):
    common.repo_on_path()
    from compiler.front_end import lr1
    from compiler.util import parser_types
    with open(path) as f:
        rp = json.load(f)["replay"]
    if "grammar" not in rp:
        E = _emboss_parser()
        r = judge(E["p"], E["ear"], set(E["prods"]), E["start"], rp["string"], True, None)
    else:
        start, prods = rp["grammar"]
        prods = [(l, tuple(r)) for l, r in prods]
        ear = earley.Earley(start, prods)
        p = lr1.Grammar(start, [parser_types.Production(l, r) for l, r in prods]).parser()
        if "string" not in rp:
            amb = earley.find_ambiguity(start, prods, 6)
            r = ("ambiguous-accepted", repr(amb)) if (amb is not None and not p.conflicts) else None
        else:
            r = judge(p, ear, set(prods), start, rp["string"], ear.is_reduced(), None)
    if r:
        print("VIOLATION property=C08 replay=%s\n  %s: %s" % (path, r[0], r[1]))
        return 1
    print("no violation on replay")
    return 0
