"""C04 — checked view operations never leave the buffer or hit undefined
behaviour.

Oracle: the sanitizer runtimes (ASan + UBSan, -fno-sanitize-recover) and the
overridden EMBOSS_CHECK/EMBOSS_DCHECK (distinct, attributable abort) watching
every driver execution of the observation, write, copy/equals and text
families on exact-size heap buffers.  A liveness canary proves the build
reports a 1-byte over-read, a signed overflow and a tripped check.
Reports are de-duplicated by (kind, message with numbers stripped, file).
"""

import importlib
import json

from vlib import common, cppdrv

LEVEL = "exploration"
FAMILIES = [("c01", "obs"), ("c03", "write"), ("c20", "eqcopy"), ("c06", "text")]


def module_case(arg):
    out = {"idx": arg["idx"], "aborts": [], "executions": {}, "built": 0}
    for modname, fam in FAMILIES:
        try:
            mod = importlib.import_module("vlib.checks." + modname)
        except ImportError:
            continue
        a = dict(arg)
        a.update(arg.get("per_family", {}).get(fam, {}))
        r = mod.module_case(a)
        out["executions"][fam] = r.get("cases", 0)
        out["built"] += 1 if r.get("built") else 0
        for ab in r.get("aborts", []):
            ab = dict(ab)
            ab["family"] = fam
            out["aborts"].append(ab)
    return out


def run(ctx):
    quick = ctx.tier == "quick"
    nmod = 16 if quick else 160
    common.repo_on_path()
    with common.Scratch("c04canary") as d:
        ok, detail = cppdrv.liveness_canary(d)
        ok2, detail2 = cppdrv.liveness_canary(d, "asan-portable")
    ctx.extra["sanitizer_canary"] = {"asan": detail, "asan-portable": detail2}
    if not (ok and ok2):
        raise common.Inconclusive("sanitizer liveness canary failed: %s / %s" % (detail, detail2))
    ctx.count("canary_reports_seen", 6)
    args = [{"seed": ctx.seed, "idx": i, "ncases": 200 if quick else 500, "buffers_per_struct": 4 if quick else 10,
             "pairs_per_struct": 10 if quick else 30, "text_cases": 24 if quick else 80} for i in range(nmod)]
    res = common.run_cases("c04", "module_case", args, timeout=3000)
    for a, (st, val) in zip(args, res):
        if st != "ok" or not val.get("ok"):
            ctx.inconclusive_cases += 200
            ctx.evaluations += 200
            ctx.count("module_failed_" + st)
            if st == "ok":
                print("worker error:", val.get("err"), val.get("tb", "")[-800:])
            continue
        v = val["val"]
        ctx.count("modules")
        ctx.count("driver_binaries_built", v["built"])
        for fam, n in v["executions"].items():
            ctx.count("executions_" + fam, n)
            ctx.evaluations += n
        ctx.nontrivial(("module", v["idx"], tuple(sorted(v["executions"].items()))))
        for ab in v["aborts"]:
            mech = "%s:%s" % (ab["kind"], ab["detail"])
            ctx.violation("C04:" + mech, "family %s, case %s: %s\n%s" % (ab["family"], ab.get("case"), mech, ab.get("report", "")[-900:]), ab)
    ctx.sample({"families": [f for _m, f in FAMILIES], "build": cppdrv.FLAVOURS["asan"], "run_env": cppdrv.RUN_ENV})
    ctx.rule = ("evaluation = one driver call sequence on one (module, structure, parameters, exact-size heap buffer): full "
                "observation incl. every prefix length, write attempts at range edges, copy/equals pairs, text round trips; "
                "distinct_nontrivial = modules whose drivers ran; a run with zero sanitizer/check reports and a live canary "
                "= held on what was observed")
    ctx.assumptions = ["ASan is red-zone based: far out-of-bounds and intra-buffer overreach are not seen (the latter is "
                       "C03's mask monitor)", "UBSan's undefined group; unsigned wrap is not flagged (used deliberately by the runtime)"]
    return ctx.finish(min_evals=nmod * 100, require=("driver_binaries_built", "executions_obs", "executions_write",
                                                     "canary_reports_seen"))


def replay(path):
    with open(path) as f:
        rp = json.load(f)
    print(json.dumps(rp["replay"], indent=1)[:3000])
    print("re-run: ./vcheck C04 (reports are reproduced from the module coordinates in 'coords')")
    fam = rp["replay"].get("family")
    mod = {"obs": "c01", "write": "c03", "eqcopy": "c20", "text": "c06"}.get(fam)
    if not mod:
        return 0
    m = importlib.import_module("vlib.checks." + mod)
    c = rp["replay"]["coords"]
    r = m.module_case({"seed": c["seed"], "idx": c["idx"], "ncases": 200, "buffers_per_struct": 4, "pairs_per_struct": 10,
                       "text_cases": 24})
    if r.get("aborts"):
        print("VIOLATION property=C04 replay=%s\n  %s" % (path, [(a["kind"], a["detail"]) for a in r["aborts"]][:4]))
        return 1
    print("no abort on replay")
    return 0
