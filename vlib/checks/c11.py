"""C11 — the formatter preserves meaning, is idempotent, never fails.

Monitor around the real format_emb.format_emboss_parse_tree: for every text
that tokenizes and parses, for several indent widths:
  * it must not raise;
  * its output must tokenize and parse;
  * own length-strict token comparator (up to whitespace, blank lines,
    trailing blanks in comments / documentation);
  * raw IR (module_ir.build_ir) equal apart from source positions;
  * fmt(fmt(t)) == fmt(t);
  * format_emb.sanity_check_format_result agrees with the own comparator.
Plus the emboss-format CLI on a sample.
"""

import json
import os
import subprocess

from vlib import common, syngen, textgen

LEVEL = "exploration"


def _collapse(tokens):
    """Own normalisation: drop Indent text, strip comment/doc trailing blanks,
    collapse runs of newline tokens, drop leading newlines."""
    out = []
    for t in tokens:
        if t.symbol == '"\\n"':
            if out and out[-1][0] != '"\\n"':
                out.append(('"\\n"', ""))
            continue
        if t.symbol in ("Indent", "Dedent"):
            out.append((t.symbol, ""))
        elif t.symbol in ("Comment", "Documentation"):
            out.append((t.symbol, t.text.rstrip()))
        else:
            out.append((t.symbol, t.text))
    return out


def _strip_locations(d, in_doc=False):
    """Removes source positions; documentation text is compared up to trailing
    blanks (the property allows the formatter to trim them)."""
    if isinstance(d, dict):
        out = {}
        for k, v in d.items():
            if k in ("source_location", "source_text", "source_file_name"):
                continue
            if k == "documentation":
                out[k] = [dict(_strip_locations(x), text=x.get("text", "").rstrip()) if isinstance(x, dict) else x
                          for x in v]
            else:
                out[k] = _strip_locations(v)
        return out
    if isinstance(d, list):
        return [_strip_locations(x) for x in d]
    return d


def _raw_ir(tree):
    """Raw IR as JSON text with positions removed and the process-global
    numbering of reserved anonymous names renumbered by first appearance."""
    import re
    from compiler.front_end import module_ir
    from compiler.util import ir_data_utils
    ir = module_ir.build_ir(tree)
    d = _strip_locations(ir_data_utils.IrDataSerializer(ir).to_dict(exclude_none=True))
    text = json.dumps(d, sort_keys=True)
    order = {}

    def renum(m):
        n = order.setdefault(m.group(2), len(order))
        return "%s%d" % (m.group(1), n)

    return re.sub(r"(EmbossReservedAnonymousField|emboss_reserved_anonymous_field_)(\d+)", renum, text)


def _parse(text):
    from compiler.front_end import parser, tokenizer
    toks, errs = tokenizer.tokenize(text, "f.emb")
    if errs:
        return None, None, "tokenize"
    r = parser.parse_module(toks)
    if r.error:
        return toks, None, "parse"
    return toks, r.parse_tree, None


def monitor(text, widths, used_productions=None):
    """Returns (status, [violations]) ; status in parsed/unparsed."""
    from compiler.front_end import format_emb
    toks, tree, why = _parse(text)
    if tree is None:
        return "unparsed", []
    viol = []
    base_norm = _collapse(toks)
    base_ir = None
    for w in widths:
        cfg = format_emb.Config(indent_width=w, show_line_types=False)
        try:
            out = format_emb.format_emboss_parse_tree(tree, cfg, used_productions)
        except Exception as e:
            viol.append(("raises:" + type(e).__name__, "format raised %r (indent %d)" % (e, w), w))
            continue
        if not isinstance(out, str):
            viol.append(("non-string", "formatter returned %r" % type(out), w))
            continue
        ftoks, ftree, fwhy = _parse(out)
        try:
            builtin = format_emb.sanity_check_format_result(out, text)
        except Exception as e:
            builtin = ["raised %r" % (e,)]
            viol.append(("selfcheck-raises:" + type(e).__name__, "sanity_check_format_result raised %r" % (e,), w))
        if ftree is None:
            mech = "output-unparseable" if fwhy == "parse" else "output-untokenizable"
            # classify the well-known unary-minus gluing by mechanism
            viol.append((mech, "formatted output does not %s (indent %d): %r" % (fwhy, w, out[:300]), w))
            if not builtin:
                viol.append(("selfcheck-disagrees", "built-in self-check accepts an output that does not %s" % fwhy, w))
            continue
        fnorm = _collapse(ftoks)
        same = fnorm == base_norm
        if not same:
            k = 0
            while k < min(len(fnorm), len(base_norm)) and fnorm[k] == base_norm[k]:
                k += 1
            viol.append(("tokens-differ", "token %d: original %r formatted %r (lengths %d/%d, indent %d)" % (
                k, base_norm[k:k + 1], fnorm[k:k + 1], len(base_norm), len(fnorm), w), w))
        if bool(builtin) == same:
            viol.append(("selfcheck-disagrees", "built-in self-check says %r but own comparison says %s" % (
                builtin[:1], "equal" if same else "different"), w))
        if same:
            if base_ir is None:
                base_ir = _raw_ir(tree)
            fir = _raw_ir(ftree)
            if fir != base_ir:
                viol.append(("ir-differs", "raw IR of formatted text differs from the original's (indent %d)" % w, w))
        try:
            out2 = format_emb.format_emboss_parse_tree(ftree, cfg)
            if out2 != out:
                la, lb = out.split("\n"), out2.split("\n")
                k = 0
                while k < min(len(la), len(lb)) and la[k] == lb[k]:
                    k += 1
                viol.append(("not-idempotent", "second format changes line %d: %r -> %r (indent %d)" % (
                    k + 1, la[k:k + 1], lb[k:k + 1], w), w))
        except Exception as e:
            viol.append(("raises-on-own-output:" + type(e).__name__, "re-format raised %r" % (e,), w))
    return "parsed", viol


def classify(mech, text, what):
    """Narrow mechanism keys for listed findings."""
    return mech


def gen_text(rng, corpus, fmt_corpus):
    r = rng.random()
    if r < 0.45:
        for _ in range(6):
            text, _s = syngen.program(rng)
            if _parse(text)[1] is not None:
                return "syngen", text
        return "syngen", text
    if r < 0.55:
        return "corpus", corpus[rng.randrange(len(corpus))][1]
    if r < 0.75:
        return "format_corpus_mutant", textgen.mutate_text(rng, fmt_corpus[rng.randrange(len(fmt_corpus))][1])
    name, text = corpus[rng.randrange(len(corpus))]
    if len(text) > 2500:
        # cut at a top-level boundary to keep it parseable
        parts = text.split("\n\n\n")
        text = "\n\n\n".join(parts[:rng.randint(1, len(parts))])
    return "corpus_mutant", textgen.mutate_text(rng, text)


def batch(arg):
    common.repo_on_path()
    corpus = textgen.corpus()
    fmt_corpus = [c for c in corpus if "/format/" in c[0]] or corpus
    used = set()
    out = {"viol": [], "parsed": 0, "unparsed": 0, "kinds": {}, "formats": 0, "samples": [], "distinct": []}
    seen = set()
    for i in range(arg["start"], arg["start"] + arg["count"]):
        rng = common.case_rng(arg["seed"], "C11", i)
        kind, text = gen_text(rng, corpus, fmt_corpus)
        widths = rng.sample(range(1, 9), arg["nwidths"])
        st, viol = monitor(text, widths, used)
        out[st] += 1
        if st == "parsed":
            out["kinds"][kind] = out["kinds"].get(kind, 0) + 1
            out["formats"] += len(widths)
            h = hash(text)
            if h not in seen and len(text.strip().split("\n")) >= 3:
                seen.add(h)
                out["distinct"].append(h)
            if len(out["samples"]) < 1 and kind == "syngen" and 4 < text.count("\n") < 14:
                out["samples"].append({"case": i, "kind": kind, "text": text, "widths": widths})
        for mech, what, w in viol:
            out["viol"].append({"mech": mech, "what": what, "text": text, "indent": w, "case": i, "kind": kind})
    out["used_productions"] = sorted(str(p) for p in used)
    out["viol"] = common.cap_by_mech(out["viol"])
    return out


def cli_sample(arg):
    """emboss-format --no-edit-in-place on files; compare with in-process."""
    common.repo_on_path()
    from compiler.front_end import format_emb
    corpus = textgen.corpus()
    out = {"viol": [], "runs": 0}
    with common.Scratch("c11") as d:
        for i in range(arg["start"], arg["start"] + arg["count"]):
            rng = common.case_rng(arg["seed"], "C11cli", i)
            for _ in range(8):
                text, _s = syngen.program(rng) if rng.random() < 0.6 else (corpus[rng.randrange(len(corpus))][1], None)
                toks, tree, _why = _parse(text)
                if tree is not None:
                    break
            if tree is None:
                continue
            w = rng.randint(1, 8)
            path = os.path.join(d, "in%d.emb" % i)
            with open(path, "w", encoding="utf-8", newline="") as f:
                f.write(text)
            try:
                r = subprocess.run([common.PY, os.path.join(common.REPO, "emboss-format"), "--no-edit-in-place",
                                    "--indent", str(w), "in%d.emb" % i], cwd=d, capture_output=True, text=True,
                                   env=common.child_env(), timeout=300)
            except subprocess.TimeoutExpired:
                out["timeouts"] = out.get("timeouts", 0) + 1  # wall-clock watchdog on a loaded machine: inconclusive case
                continue
            out["runs"] += 1
            try:
                expect = format_emb.format_emboss_parse_tree(tree, format_emb.Config(indent_width=w, show_line_types=False))
            except Exception:
                continue  # reported by the in-process monitor
            if "Traceback" in r.stderr or r.returncode != 0:
                out["viol"].append({"mech": "cli-fails", "what": "rc=%d stderr=%r" % (r.returncode, r.stderr[-300:]),
                                    "text": text, "indent": w})
            elif r.stdout != expect and not r.stderr.strip():
                out["viol"].append({"mech": "cli-differs", "what": "CLI output differs from in-process formatter",
                                    "text": text, "indent": w})
            with open(path, encoding="utf-8", newline="") as f:
                if f.read() != text:
                    out["viol"].append({"mech": "cli-edited-input", "what": "--no-edit-in-place modified the input file",
                                        "text": text, "indent": w})
    return out


def _mech(x):
    """Mechanism classifier: groups by what the formatter did, not by input."""
    return "C11:" + x["mech"]


def run(ctx):
    quick = ctx.tier == "quick"
    n = 3200 if quick else 60000
    per = 100 if quick else 1000
    nw = 2 if quick else 8
    args = [{"seed": ctx.seed, "start": s, "count": min(per, n - s), "nwidths": nw} for s in range(0, n, per)]
    ncli = 24 if quick else 200
    import threading
    cres = []
    cargs = [{"seed": ctx.seed, "start": s, "count": 6} for s in range(0, ncli, 6)]
    t = threading.Thread(target=lambda: cres.extend(common.run_cases("c11", "cli_sample", cargs, timeout=2400, jobs=4)))
    t.start()
    res = common.run_cases("c11", "batch", args, timeout=1200, jobs=common.NCPU - 4)
    t.join()
    used = set()
    for a, (st, val) in zip(args, res):
        if st != "ok" or not val.get("ok"):
            ctx.inconclusive_cases += a["count"]
            ctx.evaluations += a["count"]
            if st == "ok":
                print("worker error:", val.get("err"), val.get("tb", "")[-600:])
            continue
        v = val["val"]
        ctx.evaluations += v["parsed"] + v["unparsed"]
        ctx.count("texts_parsed", v["parsed"])
        ctx.count("texts_unparseable_skipped", v["unparsed"])
        ctx.count("format_calls_monitored", v["formats"])
        for k, c in v["kinds"].items():
            ctx.count("kind_" + k, c)
        used.update(v["used_productions"])
        for h in v["distinct"]:
            ctx.distinct.add(h)
        for s in v["samples"]:
            ctx.sample(s, limit=3)
        for x in v["viol"]:
            ctx.violation(_mech(x), x["what"], x)
    for a, (st, val) in zip(cargs, cres):
        if st != "ok" or not val.get("ok"):
            ctx.count("cli_batch_failed")
            continue
        ctx.count("cli_runs", val["val"]["runs"])
        ctx.count("cli_watchdog_timeouts", val["val"].get("timeouts", 0))
        for x in val["val"]["viol"]:
            ctx.violation("C11:" + x["mech"], x["what"], x)
    common.repo_on_path()
    from compiler.front_end import module_ir
    allp = set(str(p) for p in module_ir.PRODUCTIONS)
    ctx.extra["productions_formatted"] = len(used & allp)
    ctx.extra["productions_total"] = len(allp)
    ctx.extra["productions_never_formatted"] = sorted(allp - used)[:40]
    ctx.rule = ("case = text from (seed,i): grammar-derived program (doc/grammar.md productions, random spacing/comments), "
                "corpus file, mutated corpus/format-testdata; only texts that tokenize and parse are judged; each under "
                "%d random indent widths of 1..8; distinct_nontrivial = distinct parsed texts with >= 3 lines" % nw)
    ctx.assumptions = ["tokenizer and parser are trusted here (monitored by C08-C10)",
                       "meaning = raw IR from module_ir.build_ir with source positions removed"]
    return ctx.finish(min_evals=n // 2, require=("texts_parsed", "format_calls_monitored", "cli_runs", "kind_syngen"))


def replay(path):
    common.repo_on_path()
    with open(path) as f:
        rp = json.load(f)["replay"]
    st, viol = monitor(rp["text"], [rp.get("indent", 2)])
    for mech, what, w in viol:
        print("VIOLATION property=C11 replay=%s\n  %s: %s" % (path, mech, what))
    print("status:", st)
    return 1 if viol else 0
