"""C10 — tokenization is lossless, position-accurate, classified as documented.

Oracle: post-condition monitor on tokenizer.tokenize (installed with
monitors.wrap, so it observes the real function at its boundary):
  (a) pure invariants: slice equality, coverage, ordering, newline tokens,
      Indent/Dedent stack simulation;
  (b) differential: independent tokenizer built from doc/grammar.md's table;
  (c) language-reference predicates for names and numeric constants.
"""

import json
import re

from vlib import common, monitors, reftok, textgen

LEVEL = "exploration"
FOUND = []  # filled by the monitor: (mech, what)
STATS = {}


def _stat(k, n=1):
    STATS[k] = STATS.get(k, 0) + n


def _loc(tok):
    sl = tok.source_location
    return (sl.start.line, sl.start.column), (sl.end.line, sl.end.column)


def monitor(text, result):
    """Returns list of (mechanism, description)."""
    out = []
    tokens, errors = result
    ref = reftok.tokenize(text)
    lines = reftok.split_lines(text)
    _stat("monitor_evals")
    if errors:
        _stat("real_error")
        if tokens is not None:
            out.append(("error-with-tokens", "errors returned together with tokens"))
        if ref[0] != "error":
            out.append(("spurious-error", "tokenizer reports %r but reference tokenizes fine" % (
                _err_text(errors),)))
        else:
            try:
                msg = errors[0][0]
                pos = (msg.location.start.line, msg.location.start.column)
                if msg.message != ref[1] or pos != ref[2]:
                    out.append(("error-position", "error %r at %r, reference %r at %r" % (
                        msg.message, pos, ref[1], ref[2])))
            except Exception as e:  # malformed error object
                out.append(("error-shape", "malformed error list: %r" % (e,)))
        return out
    if ref[0] == "error":
        out.append(("missed-error", "reference rejects (%s at %r) but tokenizer accepted" % (ref[1], ref[2])))
        return out
    _stat("tokens_checked", len(tokens))
    # (a) invariants --------------------------------------------------------
    per_line = {}
    depth = 0
    last_pos = (0, 0)
    for idx, t in enumerate(tokens):
        (l1, c1), (l2, c2) = _loc(t)
        if t.symbol in ("Indent", "Dedent"):
            depth += 1 if t.symbol == "Indent" else -1
            if depth < 0:
                out.append(("dedent-underflow", "Dedent below depth 0 at token %d" % idx))
            if t.symbol == "Indent":
                if not (l1 == l2 and 1 <= l1 <= len(lines) and lines[l1 - 1][c1 - 1:c2 - 1] == t.text
                        and t.text and t.text.strip() == ""):
                    out.append(("indent-slice", "Indent token text %r is not the whitespace slice at %r" % (
                        t.text, ((l1, c1), (l2, c2)))))
            continue
        if (l1, c1) < last_pos:
            out.append(("order", "token %d %r at %r starts before previous token's end %r" % (
                idx, t.text, (l1, c1), last_pos)))
        last_pos = (l2, c2)
        if l1 != l2 or not (1 <= l1 <= len(lines)):
            out.append(("span", "token %r spans lines or lies outside the text: %r" % (t.text, ((l1, c1), (l2, c2)))))
            continue
        line = lines[l1 - 1]
        if t.symbol == '"\\n"':
            if t.text != "\n" or (c1, c2) != (len(line) + 1, len(line) + 1):
                out.append(("newline-pos", "newline token at %r, line length %d" % (((l1, c1), (l2, c2)), len(line))))
            per_line.setdefault(l1, []).append(None)
            continue
        if line[c1 - 1:c2 - 1] != t.text or c2 - c1 != len(t.text) or not t.text:
            out.append(("slice", "token text %r != source slice %r at %r" % (t.text, line[c1 - 1:c2 - 1], ((l1, c1), (l2, c2)))))
        per_line.setdefault(l1, []).append((c1, c2, t))
    if depth != 0:
        out.append(("unbalanced", "Indent/Dedent unbalanced by %d at end" % depth))
    for ln, line in enumerate(lines, 1):
        ents = per_line.get(ln, [])
        nl = sum(1 for e in ents if e is None)
        toks = [e for e in ents if e is not None]
        blank = line.strip() == ""
        if (not blank and nl != 1) or nl > 1:
            out.append(("newline-count", "line %d (%r) has %d newline tokens" % (ln, line[:40], nl)))
        if ents and ents[-1] is not None:
            out.append(("newline-last", "line %d does not end in its newline token" % ln))
        pos = 0
        for c1, c2, t in toks:
            if line[pos:c1 - 1].strip() != "":
                out.append(("gap", "line %d: uncovered non-blank text %r" % (ln, line[pos:c1 - 1])))
            pos = max(pos, c2 - 1)
        if line[pos:].strip() != "":
            out.append(("gap", "line %d: uncovered non-blank tail %r" % (ln, line[pos:])))
    # (b) differential ------------------------------------------------------
    mine = [(t.symbol, t.text) + _loc(t) for t in tokens]
    refl = ref[1]
    blank_lines = set(i for i, l in enumerate(lines, 1) if l.strip() == "")

    def strip_blank_newlines(seq):
        return [x for x in seq if not (x[0] == '"\\n"' and x[2][0] in blank_lines)]

    a, b = strip_blank_newlines(mine), strip_blank_newlines(refl)
    if a != b:
        k = 0
        while k < min(len(a), len(b)) and a[k] == b[k]:
            k += 1
        got = a[k] if k < len(a) else None
        exp = b[k] if k < len(b) else None
        kind = "diff-class"
        if got is None or exp is None:
            kind = "diff-length"
        elif got[0] in ("Indent", "Dedent") or exp[0] in ("Indent", "Dedent"):
            kind = "diff-indent"
        elif got[1] != exp[1]:
            kind = "diff-boundary"
        elif got[0] == exp[0]:
            kind = "diff-position"
        out.append((kind, "first difference at token %d: tokenizer %r, documented table %r" % (k, got, exp)))
    # (c) language-reference predicates --------------------------------------
    for t in tokens:
        s, x = t.symbol, t.text
        if s == "SnakeWord" and not reftok.is_snake(x):
            out.append(("class-snake", "%r classified SnakeWord" % x))
        elif s == "CamelWord" and not reftok.is_camel(x):
            out.append(("class-camel", "%r classified CamelWord" % x))
        elif s == "ShoutyWord" and not reftok.is_shouty(x):
            out.append(("class-shouty", "%r classified ShoutyWord" % x))
        elif s == "Number" and not reftok.is_number(x):
            out.append(("class-number", "%r classified Number" % x))
        elif s in ("BadWord", "BadNumber"):
            _stat("bad_tokens")
            if x in ("true", "false") or x in textgen.KEYWORDS:
                out.append(("class-keyword", "%r classified %s" % (x, s)))
            elif re.match(r"(?i)emboss_?reserved", x):
                pass
            elif reftok.is_number(x) or reftok.is_snake(x) or reftok.is_camel(x) or reftok.is_shouty(x):
                out.append(("class-missed", "%r satisfies a documented name/number rule but is %s" % (x, s)))
        if s in ("SnakeWord", "CamelWord", "ShoutyWord", "Number"):
            _stat("class_" + s)
    return out


def _err_text(errors):
    try:
        m = errors[0][0]
        return "%s at %s" % (m.message, m.location)
    except Exception:
        return repr(errors)[:200]


def _post(_state, result, text, file_name):
    for mech, what in monitor(text, result):
        FOUND.append((mech, what, text))


_INSTALLED = False


def install():
    global _INSTALLED
    if _INSTALLED:
        return
    common.repo_on_path()
    from compiler.front_end import tokenizer
    monitors.wrap(tokenizer, "tokenize", post=_post)
    _INSTALLED = True


def gen_text(rng, corpus):
    r = rng.random()
    if r < 0.40:
        return "soup", textgen.token_soup(rng)
    if r < 0.55:
        return "chars", textgen.random_chars(rng)
    if r < 0.65:
        # single line of a couple of glued atoms: boundary/longest-match cases
        return "glue", "".join(textgen.rand_atom(rng) for _ in range(rng.randint(1, 4)))
    if r < 0.70:
        # indentation stress
        lines = []
        for _ in range(rng.randint(2, 9)):
            lines.append(textgen.rand_indent(rng) + rng.choice(["x", "# c", "", "y z", "-- d"]))
        return "indent", rng.choice(["\n", "\n", "\r\n"]).join(lines) + rng.choice(["\n", ""])
    name, text = corpus[rng.randrange(len(corpus))]
    if r < 0.75:
        return "corpus", text
    if len(text) > 1500:
        lines = text.split("\n")
        s = rng.randrange(max(1, len(lines) - 30))
        text = "\n".join(lines[s:s + 30])
    t = textgen.mutate_text(rng, text)
    if rng.random() < 0.15:
        t = t.replace("\n", rng.choice(textgen.TERMINATORS))
    return "mutant", t


def batch(arg):
    install()
    from compiler.front_end import tokenizer
    corpus = textgen.corpus()
    STATS.clear()
    viol = []
    kinds = {}
    distinct = set()
    samples = []
    for i in range(arg["start"], arg["start"] + arg["count"]):
        rng = common.case_rng(arg["seed"], "C10", i)
        kind, text = gen_text(rng, corpus)
        kinds[kind] = kinds.get(kind, 0) + 1
        del FOUND[:]
        try:
            res = tokenizer.tokenize(text, "f.emb")
        except Exception as e:
            viol.append({"mech": "exception:" + type(e).__name__, "what": repr(e), "text": text, "case": i})
            continue
        for mech, what, _t in FOUND:
            viol.append({"mech": mech, "what": what, "text": text, "case": i})
        if res[0] is not None and len(res[0]) > 2:
            distinct.add(hash(tuple(t.symbol for t in res[0])))
        if len(samples) < 2 and res[0] and 4 < len(res[0]) < 14:
            samples.append({"case": i, "kind": kind, "text": text,
                            "tokens": [[t.symbol, t.text, str(t.source_location)] for t in res[0]]})
    return {"viol": viol[:50], "nviol": len(viol), "kinds": kinds, "stats": dict(STATS),
            "distinct": list(distinct), "samples": samples,
            "wrapped_calls": monitors.COUNTS[("compiler.front_end.tokenizer", "tokenize")]}


def run(ctx):
    n = 120000 if ctx.tier == "quick" else 1500000
    per = 2500 if ctx.tier == "quick" else 10000
    args = [{"seed": ctx.seed, "start": s, "count": min(per, n - s)} for s in range(0, n, per)]
    results = common.run_cases("c10", "batch", args, timeout=600)
    distinct = set()
    for a, (st, val) in zip(args, results):
        if st != "ok" or not val.get("ok"):
            ctx.inconclusive_cases += a["count"]
            ctx.count("batch_failed")
            if st == "ok":
                print("worker error:", val.get("err"), val.get("tb", "")[-800:])
            continue
        v = val["val"]
        ctx.evaluations += a["count"]
        for k, c in v["kinds"].items():
            ctx.count("kind_" + k, c)
        for k, c in v["stats"].items():
            ctx.count(k, c)
        distinct.update(v["distinct"])
        for s in v["samples"]:
            ctx.sample(s, limit=4)
        for x in v["viol"]:
            ctx.violation("C10:" + x["mech"], x["what"], {"text": x["text"], "case": x["case"]})
    for d in distinct:
        ctx.distinct.add(d)
    ctx.rule = ("case i = text generated from (seed,i): token soup / random chars / glued atoms / "
                "indentation stress / corpus file / mutated corpus fragment; non-trivial & distinct = "
                "distinct symbol sequences of accepted tokenizations with > 2 tokens")
    ctx.assumptions = ["doc/grammar.md token table and language-reference name/number rules are the specification",
                       "lines are split on the str.splitlines terminator set (own implementation)"]
    return ctx.finish(min_evals=n // 2, require=("monitor_evals", "tokens_checked", "real_error"))


def replay(path):
    install()
    from compiler.front_end import tokenizer
    with open(path) as f:
        rp = json.load(f)
    text = rp["replay"]["text"]
    del FOUND[:]
    tokenizer.tokenize(text, "f.emb")
    for mech, what, _ in FOUND:
        print("VIOLATION property=C10 replay=%s\n  %s: %s" % (path, mech, what))
    print("text=%r" % text)
    return 1 if FOUND else 0
