"""C17 — compilation is a pure function of its input files.

Offline equality checker over recorded run outputs.  Each *fresh process*
(one per PYTHONHASHSEED value) compiles the whole source set through the real
entry points and records, per source, the IR JSON, header and rendered
diagnostics; the parent compares all recordings.  Also: repetition inside one
process, interleaving with other modules (equal up to reserved anonymous
numbering), import-directory order, one-process (embossc) vs two-process
(emboss_front_end | emboss_codegen_cpp) builds, and the table numbering of a
freshly generated parser.
"""

import hashlib
import json
import os
import re
import subprocess
import sys

from vlib import common, embc, syngen, textgen

LEVEL = "exploration"


def _h(s):
    return hashlib.sha256(s.encode("utf-8", "surrogatepass")).hexdigest()[:20]


def compile_record(files, main):
    """One compilation -> dict of output texts (crashes are recorded as
    outputs too: determinism is judged, totality is C16's business)."""
    from compiler.util import error as error_mod
    from compiler.util import ir_data_utils
    rec = {"status": None, "ir": "", "header": "", "diag": ""}
    try:
        ir, _dbg, errors = embc.parse(files, main)
    except Exception as e:
        # An uncaught exception is C16's finding; its message is not a
        # diagnostic the compiler composes (assertion texts print Python sets),
        # so only the exception type and the raising function are compared.
        rec["status"] = "crash:%s" % type(e).__name__
        rec["diag"] = "%s@%s" % embc.crash_site(e)
        return rec
    srcs = {k: v for k, v in files.items() if v is not None}
    if errors:
        rec["status"] = "rejected"
        try:
            rec["diag"] = error_mod.format_errors(errors, srcs)
        except Exception:
            try:
                rec["diag"] = error_mod.format_errors(errors, {})
            except Exception as e:
                rec["diag"] = "unrenderable %r" % (e,)
        return rec
    try:
        rec["ir"] = ir_data_utils.IrDataSerializer(ir).to_json()
        hdr, herrors = embc.header(ir)
    except Exception as e:
        # An uncaught exception is C16's finding; its message is not a
        # diagnostic the compiler composes (assertion texts print Python sets),
        # so only the exception type and the raising function are compared.
        rec["status"] = "crash:%s" % type(e).__name__
        rec["diag"] = "%s@%s" % embc.crash_site(e)
        return rec
    if herrors:
        rec["status"] = "backend-rejected"
        rec["diag"] = error_mod.format_errors(herrors, srcs)
    else:
        rec["status"] = "accepted"
        rec["header"] = hdr
    return rec


def source_set(seed, n):
    """Deterministic list of (name, files, main)."""
    corpus = [c for c in textgen.corpus() if c[1].strip()]
    by_name = dict(corpus)
    out = []

    def with_imports(files):
        for t in list(files.values()):
            for m in re.finditer(r'^\s*import\s+"([^"]*)"', t or "", re.M):
                for cname, ctext in corpus:
                    if cname.endswith("/" + m.group(1)) or cname == m.group(1):
                        files.setdefault(m.group(1), ctext)
        return files

    i = 0
    fixed = [
        ("syntax-eof", {"m.emb": "struct Foo:\n  0 [+1]  UInt\n"}),
        ("syntax-mid", {"m.emb": "struct Foo:\n  0 [+1]  UInt  x y\n"}),
        ("syntax-type", {"m.emb": "struct foo:\n  0 [+1]  UInt  x\n"}),
        ("syntax-expr", {"m.emb": "struct Foo:\n  0 [+1 +]  UInt  x\n"}),
        ("syntax-attr", {"m.emb": "[x y]\n"}),
        ("syntax-enum", {"m.emb": "enum Foo:\n  AA = \n"}),
        ("ambiguous", {"m.emb": "struct Foo:\n  struct Bar:\n    0 [+1]  UInt  x\n  0 [+1]  Bar  b\n"
                                "struct Baz:\n  struct Bar:\n    0 [+1]  UInt  x\n  0 [+1]  Qux.Bar  b\n"
                                "struct Qux:\n  0 [+1]  UInt  x\n"}),
        ("dup-names", {"m.emb": "struct Foo:\n  0 [+1]  UInt  x\n  1 [+1]  UInt  x\n  2 [+1]  UInt  x\nstruct Foo:\n  0 [+1]  UInt  y\n"}),
        ("cycles", {"m.emb": "struct Foo:\n  let a = b + 1\n  let b = c + 1\n  let c = a + 1\n  let d = e\n  let e = d\n"
                             "  0 [+1]  UInt  x\nenum Ee:\n  AA = Ee.BB\n  BB = Ee.AA\n"}),
        ("import-cycle", {"m.emb": 'import "b.emb" as b\nstruct Foo:\n  0 [+1]  UInt  x\n',
                          "b.emb": 'import "c.emb" as c\nstruct Bar:\n  0 [+1]  UInt  x\n',
                          "c.emb": 'import "m.emb" as m\nstruct Baz:\n  0 [+1]  UInt  x\n'}),
        ("dup-attrs", {"m.emb": '[$default byte_order: "LittleEndian"]\n[$default byte_order: "BigEndian"]\n'
                                'struct Foo:\n  [requires: x > 0]\n  [requires: x > 1]\n  0 [+2]  UInt  x\n    [byte_order: "Null"]\n'}),
        ("many-errors", {"m.emb": "struct Foo:\n  0 [+1]  Nope  a\n  1 [+1]  Nada  b\n  2 [+zz]  UInt  c\n  let v = qq + rr\n"}),
        ("type-errors", {"m.emb": "struct Foo:\n  0 [+1]  UInt  a\n  let b = a + true\n  let c = a == false\n  let d = true ? 1 : false\n  if a:\n    1 [+1]  UInt  e\n"}),
        ("missing-import", {"m.emb": 'import "zz.emb" as zz\nstruct Foo:\n  0 [+1]  UInt  x\n'}),
        ("anon-bits", {"m.emb": "struct Foo:\n  0 [+1]  bits:\n    0 [+4]  UInt  a\n    4 [+4]  UInt  b\n  1 [+1]  bits:\n    0 [+1]  Flag  c\n"
                                "  2 [+1]  bits:\n    0 [+8]  UInt  d\nstruct Bar:\n  0 [+2]  bits:\n    0 [+9]  UInt  e\n"}),
    ]
    # a name visible from two scopes: the two "Possible resolution" notes come from a list the compiler sorts
    for j, nm in enumerate(["Bar", "Quux", "Xyzzy", "Aa", "Zz9", "Thing", "Inner", "LongerTypeName"]):
        fixed.append(("ambiguous-scopes-%d" % j, {"m.emb": "struct %s:\n  0 [+1]  UInt  x\nstruct Foo%d:\n  struct %s:\n    0 [+2]  UInt  y\n"
                                                            "  0 [+2]  %s  b\n" % (nm, j, nm, nm)}))
    for j, nm in enumerate(["UInt", "Int", "Flag", "Bcd"]):
        fixed.append(("ambiguous-prelude-%d" % j, {"m.emb": "struct %s:\n  0 [+1]  bits:\n    0 [+1]  Flag  f\nstruct Foo:\n  0 [+1]  %s  x\n" % (nm, nm)}))
    # diagnostics that enumerate a collection (expected back ends, allowed attribute values)
    for j, lst in enumerate(["cpp, rust, java, go", "alpha, beta, gamma, delta, epsilon", "zz, yy, xx, ww, vv, uu", "cpp, py"]):
        fixed.append(("back-ends-%d" % j, {"m.emb": '[expected_back_ends: "%s"]\n[(swift) namespace: "Demo"]\nstruct Foo:\n  0 [+1]  UInt  x\n' % lst}))
    fixed.append(("bad-byte-order-value", {"m.emb": 'struct Foo:\n  0 [+2]  UInt  x\n    [byte_order: "Middle"]\n'}))
    fixed.append(("bad-text-output-value", {"m.emb": 'struct Foo:\n  0 [+1]  UInt  x\n    [text_output: "Sometimes"]\n'}))
    fixed.append(("bad-enum-case-value", {"m.emb": '[(cpp) $default enum_case: "snake_case, kCamelCase, Bad"]\nenum Ee:\n  AA = 1\n'}))
    for name, files in fixed:
        out.append((name, files, "m.emb"))
    while len(out) < n:
        rng = common.case_rng(seed, "C17src", i)
        i += 1
        r = rng.random()
        if r < 0.3:
            name, text = corpus[rng.randrange(len(corpus))]
            out.append(("corpus:" + name, with_imports({"m.emb": text}), "m.emb"))
        elif r < 0.5:
            name, text = corpus[rng.randrange(len(corpus))]
            lines = text.split("\n")
            k = rng.randrange(len(lines) + 1)
            t = "\n".join(lines[:k])
            # cut the last line somewhere to hit many parser states
            if t and rng.random() < 0.7:
                t = t[:max(0, len(t) - rng.randint(0, 25))]
            out.append(("truncated:%s@%d" % (name, k), with_imports({"m.emb": t + "\n"}), "m.emb"))
        elif r < 0.85:
            name, text = corpus[rng.randrange(len(corpus))]
            if len(text) > 3000:
                parts = text.split("\n\n\n")
                k = rng.randrange(len(parts))
                text = "\n\n\n".join(parts[:1] + parts[k:k + 3])
            out.append(("mutant:" + name, with_imports({"m.emb": textgen.semantic_mutate(rng, text)}), "m.emb"))
        else:
            t, _s = syngen.program(rng)
            out.append(("syngen", {"m.emb": t}, "m.emb"))
    return out[:n]


# -- child process -----------------------------------------------------------

def child_main(spec_path, out_path):
    common.repo_on_path()
    with open(spec_path) as f:
        spec = json.load(f)
    sources = source_set(spec["seed"], spec["n"])
    order = list(range(len(sources)))
    if spec.get("reverse"):
        order.reverse()
    recs = {}
    for k in order:
        name, files, main = sources[k]
        r = compile_record(files, main)
        recs[str(k)] = {"status": r["status"], "ir": _h(r["ir"]), "header": _h(r["header"]), "diag": r["diag"][:3000],
                        "diag_h": _h(r["diag"]), "ir_n": _h(_norm_anon(r["ir"])), "header_n": _h(_norm_anon(r["header"]))}
        if spec.get("repeat") and k % 3 == 0:
            for rep in range(2):
                r2 = compile_record(files, main)
                if (r2["status"], r2["diag"]) != (r["status"], r["diag"]) or _norm_anon(r2["ir"]) != _norm_anon(r["ir"]) or \
                        _norm_anon(r2["header"]) != _norm_anon(r["header"]):
                    recs[str(k)]["repeat_differs"] = {"rep": rep + 1, "status": r2["status"], "diag": r2["diag"][:1500]}
                if (r2["ir"], r2["header"]) != (r["ir"], r["header"]):
                    recs[str(k)]["repeat_differs_exact"] = True
    out = {"recs": recs, "hashseed": os.environ.get("PYTHONHASHSEED")}
    if spec.get("tables"):
        from compiler.front_end import make_parser
        p = make_parser.build_module_parser()
        sig = []
        for st in sorted(p.action):
            for sym in sorted(p.action[st], key=str):
                a = p.action[st][sym]
                sig.append("%d %s %s %s" % (st, sym, type(a).__name__,
                                            getattr(a, "state", None) if hasattr(a, "state") else getattr(a, "rule", getattr(a, "code", ""))))
        for st in sorted(p.goto):
            for sym in sorted(p.goto[st]):
                sig.append("g %d %s %d" % (st, sym, p.goto[st][sym]))
        for st in sorted(p.default_errors):
            sig.append("d %d %s" % (st, p.default_errors[st]))
        out["tables"] = _h("\n".join(sig))
    with open(out_path, "w") as f:
        json.dump(out, f)


def _norm_anon(text):
    order = {}

    def renum(m):
        return "%s%d" % (m.group(1), order.setdefault(m.group(2), len(order)))

    return re.sub(r"(EmbossReservedAnonymousField|emboss_reserved_anonymous_field_)(\d+)", renum, text)


# -- parent ---------------------------------------------------------------------

def _spawn(scratch, tag, spec, hashseed):
    sp = os.path.join(scratch, "spec-%s.json" % tag)
    op = os.path.join(scratch, "out-%s.json" % tag)
    with open(sp, "w") as f:
        json.dump(spec, f)
    p = subprocess.Popen([common.PY, "-m", "vlib.checks.c17", "--child", sp, op], cwd=common.VERIF,
                         env=common.child_env(hashseed=hashseed), stdout=subprocess.DEVNULL, stderr=subprocess.PIPE,
                         text=True)
    return p, op


def _cli_pair(scratch, idx, files, main):
    """embossc vs emboss_front_end | emboss_codegen_cpp, and import-dir order.
    Returns list of (mech, what)."""
    d = os.path.join(scratch, "cli%d" % idx)
    d2 = os.path.join(d, "dup")
    os.makedirs(d2)
    for name, text in files.items():
        for dd in (d, d2):
            with open(os.path.join(dd, name), "w", encoding="utf-8", newline="") as f:
                f.write(text)
    env = common.child_env()
    viol = []

    def run(args, hashseed="0"):
        e = dict(env, PYTHONHASHSEED=hashseed)
        return subprocess.run(args, cwd=d, env=e, capture_output=True, text=True, timeout=600)

    a = run([common.PY, os.path.join(common.REPO, "embossc"), "--output-path", "o1", main])
    fe = run([common.PY, "-m", "compiler.front_end.emboss_front_end", "--output-file", "ir.json", main], "7")
    h1 = None
    if a.returncode == 0:
        with open(os.path.join(d, "o1", main + ".h")) as f:
            h1 = f.read()
    if (a.returncode == 0) != (fe.returncode == 0):
        viol.append(("split-status", "embossc rc=%d but emboss_front_end rc=%d" % (a.returncode, fe.returncode)))
    elif a.returncode == 0:
        be = run([common.PY, "-m", "compiler.back_end.cpp.emboss_codegen_cpp", "--input-file", "ir.json",
                  "--output-file", "two.h"], "11")
        if be.returncode != 0:
            viol.append(("split-status", "emboss_codegen_cpp rc=%d on the front end's IR: %s" % (be.returncode, be.stderr[-300:])))
        else:
            with open(os.path.join(d, "two.h")) as f:
                h2 = f.read()
            if h1 != h2:
                viol.append(("split-header-differs", "two-process header differs from embossc header"))
    else:
        tb = "Traceback (most recent call last)"
        if tb in a.stderr or tb in fe.stderr:
            # an uncaught exception (C16's finding): its traceback is not a diagnostic the compiler composes (paths of
            # the entry script, assertion texts printing Python sets); only "both died of the same exception" is compared
            def exc_type(t):
                ls = [l for l in t.strip().split("\n") if l and not l.startswith(" ")]
                return ls[-1].split(":")[0] if ls else ""
            if (tb in a.stderr) != (tb in fe.stderr) or exc_type(a.stderr) != exc_type(fe.stderr):
                viol.append(("split-crash-differs", "embossc: %r vs front end: %r" % (a.stderr[-200:], fe.stderr[-200:])))
        elif a.stderr != fe.stderr:
            viol.append(("split-diag-differs", "embossc stderr %r vs front end stderr %r" % (a.stderr[-300:], fe.stderr[-300:])))
    # import dir order with identical files in both dirs
    b = run([common.PY, os.path.join(common.REPO, "embossc"), "--import-dir", "dup", "--output-path", "o2", main], "3")
    c = run([common.PY, os.path.join(common.REPO, "embossc"), "-I", "dup", "-I", ".", "--output-path", "o3", main], "5")
    for tag, r, o in (("dir-order-1", b, "o2"), ("dir-order-2", c, "o3")):
        if r.returncode != a.returncode:
            viol.append(("dir-order-status", "%s rc=%d vs %d" % (tag, r.returncode, a.returncode)))
        elif a.returncode == 0:
            with open(os.path.join(d, o, main + ".h")) as f:
                if f.read() != h1:
                    viol.append(("dir-order-header", "%s: header differs" % tag))
        elif "Traceback (most recent call last)" in a.stderr + r.stderr:
            pass  # crash text is not compared (see above)
        elif "Unable to read file" in a.stderr or "Unable to read file" in r.stderr:
            # the diagnostic for a file found in no directory lists the directories tried, in order: it legitimately
            # depends on the import path (the property is about directories holding identical files)
            pass
        elif r.stderr != a.stderr:
            viol.append(("dir-order-diag", "%s: stderr differs: %r vs %r" % (tag, r.stderr[-200:], a.stderr[-200:])))
    return viol


def run(ctx):
    quick = ctx.tier == "quick"
    n = 60 if quick else 400
    seeds = ["0", "1", "2", "12345"] if quick else [str(x) for x in (0, 1, 2, 3, 5, 8, 13, 99, 1000, 4242, 31337, 2 ** 31)]
    ncli = 3 if quick else 24
    common.repo_on_path()
    with common.Scratch("c17") as scratch:
        procs = []
        for k, hs in enumerate(seeds):
            spec = {"seed": ctx.seed, "n": n, "repeat": False, "tables": k < 3, "reverse": False}
            procs.append(("hs" + hs, hs) + _spawn(scratch, "hs" + hs, spec, hs))
        # repetition inside one process: every third source compiled three times (a different history: the process-wide
        # anonymous-field counter runs ahead, so this process is compared up to that numbering)
        procs.append(("repeat", seeds[0]) + _spawn(scratch, "repeat", {"seed": ctx.seed, "n": n, "repeat": True}, seeds[0]))
        # interleaving: reversed order in one more process (same hash seed as the first)
        procs.append(("reversed", seeds[0]) + _spawn(scratch, "rev", {"seed": ctx.seed, "n": n, "reverse": True}, seeds[0]))
        # same seed twice (fresh-process repetition)
        procs.append(("again", seeds[0]) + _spawn(scratch, "again", {"seed": ctx.seed, "n": n}, seeds[0]))
        # CLI pairs meanwhile
        sources = source_set(ctx.seed, n)
        accepted_first = [s for s in sources if s[0].startswith("corpus:")][:ncli - 1] + [s for s in sources if s[0] == "syntax-eof"]
        cli_viol = []
        import concurrent.futures
        with concurrent.futures.ThreadPoolExecutor(4) as ex:
            futs = [ex.submit(_cli_pair, scratch, i, s[1], s[2]) for i, s in enumerate(accepted_first)]
            for i, fu in enumerate(futs):
                try:
                    for mech, what in fu.result():
                        cli_viol.append((mech, what, accepted_first[i]))
                    ctx.count("cli_pairs")
                except Exception as e:
                    ctx.count("cli_pair_failed")
                    print("cli pair failed:", repr(e))
        outs = {}
        for tag, hs, p, op in procs:
            try:
                _o, err = p.communicate(timeout=3000)
            except subprocess.TimeoutExpired:
                p.kill()
                ctx.count("child_timeout")
                continue
            if p.returncode != 0 or not os.path.exists(op):
                ctx.count("child_failed")
                print("child %s failed rc=%s: %s" % (tag, p.returncode, (err or "")[-800:]))
                continue
            with open(op) as f:
                outs[tag] = json.load(f)
            ctx.count("fresh_processes")
    if len(outs) < len(procs):
        raise common.Inconclusive("only %d of %d recording processes completed" % (len(outs), len(procs)))
    base_tag = "hs" + seeds[0]
    base = outs[base_tag]["recs"]
    statuses = {}
    for k in sorted(base, key=int):
        name, files, main = sources[int(k)]
        b = base[k]
        statuses[b["status"]] = statuses.get(b["status"], 0) + 1
        ctx.evaluations += 1
        ctx.nontrivial((b["status"], b["ir"], b["diag_h"]))
        for tag, o in outs.items():
            if tag == base_tag:
                continue
            r = o["recs"][k]
            exact = tag not in ("reversed", "repeat")  # same history => byte-identical; else up to anonymous numbering
            diffs = []
            if r["status"] != b["status"]:
                diffs.append("status %s vs %s" % (b["status"], r["status"]))
            if r["diag_h"] != b["diag_h"]:
                la, lb = b["diag"].split("\n"), r["diag"].split("\n")
                j = 0
                while j < min(len(la), len(lb)) and la[j] == lb[j]:
                    j += 1
                diffs.append("diagnostics differ at line %d: %r vs %r" % (j + 1, la[j:j + 1], lb[j:j + 1]))
            if exact and (r["ir"] != b["ir"] or r["header"] != b["header"]):
                diffs.append("IR/header bytes differ")
            if not exact and (r["ir_n"] != b["ir_n"] or r["header_n"] != b["header_n"]):
                diffs.append("IR/header bytes differ beyond the numbering of reserved anonymous identifiers")
            if diffs:
                kind = "hashseed" if tag.startswith("hs") else tag
                mech = "C17:%s:%s" % (kind, "diag" if "diagnostics" in diffs[0] else ("status" if "status" in diffs[0] else "output"))
                if "diagnostics" in diffs[0] and re.search(r"expected ", diffs[0]) and "Found " in diffs[0]:
                    mech += ":syntax-error-expected-list-order"
                ctx.violation(mech, "%s [%s vs %s]: %s" % (name, base_tag, tag, "; ".join(diffs)),
                              {"source": name, "files": files, "main": main, "tags": [base_tag, tag],
                               "hashseeds": [outs[base_tag]["hashseed"], o["hashseed"]]})
            ctx.count("comparisons")
        rb = outs["repeat"]["recs"][k]
        if "repeat_differs" in rb:
            ctx.violation("C17:in-process-repeat", "%s: repetition %d in one process differs: %r" % (
                name, rb["repeat_differs"]["rep"], rb["repeat_differs"]), {"source": name, "files": files, "main": main})
        if int(k) % 3 == 0:
            ctx.count("in_process_repeats", 2)
    tabs = set(o["tables"] for o in outs.values() if "tables" in o)
    ctx.count("fresh_parser_table_hashes_compared", sum(1 for o in outs.values() if "tables" in o))
    if len(tabs) > 1:
        ctx.violation("C17:fresh-parser-tables", "freshly generated parser tables differ between hash seeds: %r" % (sorted(tabs),),
                      {"hashes": sorted(tabs)})
    for mech, what, src in cli_viol:
        ctx.violation("C17:" + mech, "%s: %s" % (src[0], what), {"source": src[0], "files": src[1], "main": src[2]})
    for s, c in statuses.items():
        ctx.count("status_" + s, c)
    ctx.extra["hash_seeds"] = seeds
    ctx.sample({"sources": [s[0] for s in sources[:20]]})
    ctx.sample({"example_diag": next((base[k]["diag"][:400] for k in base if base[k]["status"] == "rejected"), "")})
    ctx.rule = ("evaluation = one source set (accepted corpus, truncated corpus hitting many parser states, semantic mutants, "
                "hand-written multi-error / ambiguous / cyclic / duplicate sets, grammar-derived programs) compiled in %d fresh "
                "processes with different PYTHONHASHSEED plus a same-seed repeat and a reversed-order process; "
                "distinct_nontrivial = distinct (status, IR hash, diagnostics hash)" % len(seeds))
    ctx.assumptions = ["IR JSON, header text and format_errors text are the outputs compared",
                       "interleaving (reversed order) is compared up to reserved anonymous numbering for IR/header: "
                       "only status and diagnostics are compared exactly there"]
    return ctx.finish(min_evals=n // 2, require=("fresh_processes", "comparisons", "status_accepted", "status_rejected",
                                                 "cli_pairs", "in_process_repeats"))


def replay(path):
    common.repo_on_path()
    with open(path) as f:
        rp = json.load(f)["replay"]
    outs = []
    for hs in ("0", "1", "2", "12345"):
        code = ("import json,sys; from vlib.checks import c17; from vlib import common; common.repo_on_path(); "
                "d=json.load(open(sys.argv[1]))['replay']; r=c17.compile_record(d['files'], d['main']); print(json.dumps(r))")
        r = subprocess.run([common.PY, "-c", code, path], cwd=common.VERIF, env=common.child_env(hashseed=hs),
                           capture_output=True, text=True)
        outs.append(r.stdout)
    if len(set(outs)) > 1:
        print("VIOLATION property=C17 replay=%s\n  outputs differ across hash seeds 0,1,2,12345" % path)
        return 1
    print("identical across 4 hash seeds")
    return 0


if __name__ == "__main__":
    if len(sys.argv) == 4 and sys.argv[1] == "--child":
        child_main(sys.argv[2], sys.argv[3])
