"""C15 — dependency cycles are always rejected; field order respects
dependencies.

(a) planted random reference graphs over virtual fields, field locations /
    conditions, enum values and import graphs: "Dependency cycle" /
    "Import dependency cycle" error iff an independent iterative SCC finds a
    cycle (and acyclic sets are accepted);
(b) post-condition monitor on the real dependency_checker._find_cycles:
    result == independent SCC of its argument graph (also active while other
    workloads compile);
(c) order checker on every accepted structure: fields_in_dependency_order is a
    permutation, every field comes after the fields its location, condition or
    value mentions, and equals the source order whenever the source order is
    already valid.
Termination is decided by logical budgets: RecursionError / CPU-seconds budget.
"""

import json

from vlib import common, embc, embgen, embspec, monitors, textgen

LEVEL = "exploration"
LONG_CHAIN_P = [0.02]
LONG_CHAIN_MAX = [110]
FOUND = []
STATS = {}


def _st(k, n=1):
    STATS[k] = STATS.get(k, 0) + n


def sccs(graph):
    """Iterative Tarjan; returns list of components (lists)."""
    index = {}
    low = {}
    on = set()
    st = []
    out = []
    counter = [0]
    for root in graph:
        if root in index:
            continue
        work = [(root, iter(sorted(graph.get(root, ()), key=repr)))]
        index[root] = low[root] = counter[0]
        counter[0] += 1
        st.append(root)
        on.add(root)
        while work:
            node, it = work[-1]
            advanced = False
            for d in it:
                if d not in graph:
                    continue
                if d not in index:
                    index[d] = low[d] = counter[0]
                    counter[0] += 1
                    st.append(d)
                    on.add(d)
                    work.append((d, iter(sorted(graph.get(d, ()), key=repr))))
                    advanced = True
                    break
                elif d in on:
                    low[node] = min(low[node], index[d])
            if advanced:
                continue
            work.pop()
            if work:
                low[work[-1][0]] = min(low[work[-1][0]], low[node])
            if low[node] == index[node]:
                comp = []
                while True:
                    x = st.pop()
                    on.discard(x)
                    comp.append(x)
                    if x == node:
                        break
                out.append(comp)
    return out


def cyclic_components(graph):
    return set(frozenset(c) for c in sccs(graph) if len(c) > 1 or c[0] in graph.get(c[0], ()))


def _post_find_cycles(_state, result, graph):
    _st("find_cycles_calls")
    if any(d not in graph for ds in graph.values() for d in ds):
        _st("find_cycles_graph_with_dangling_edges")
        return
    exp = cyclic_components(graph)
    got = set(frozenset(c) for c in result)
    if exp != got:
        FOUND.append(("find-cycles-differs", "_find_cycles returned %r, independent SCC gives %r for graph %r" % (
            sorted(map(sorted, got))[:4], sorted(map(sorted, exp))[:4], {k: sorted(v) for k, v in list(graph.items())[:12]})))


_INST = [False]


def install():
    if _INST[0]:
        return
    common.repo_on_path()
    from compiler.front_end import dependency_checker
    monitors.wrap(dependency_checker, "_find_cycles", post=_post_find_cycles)
    _INST[0] = True


def field_refs(node, struct_path, skip_attr=True):
    """Names of same-structure fields mentioned under node (first path element
    of every field_reference)."""
    out = set()
    if isinstance(node, dict):
        if "field_reference" in node:
            p0 = node["field_reference"]["path"][0]["canonical_name"]["object_path"]
            if tuple(p0[:-1]) == struct_path:
                out.add(p0[-1])
        for k, v in node.items():
            if k == "attribute" and skip_attr:
                continue
            if k == "source_location":
                continue
            out |= field_refs(v, struct_path, skip_attr)
    elif isinstance(node, list):
        for v in node:
            out |= field_refs(v, struct_path, skip_attr)
    return out


def check_orders(ir):
    """Returns list of (mech, what) over every structure of module 0."""
    from compiler.util import ir_data_utils
    d = ir_data_utils.IrDataSerializer(ir).to_dict(exclude_none=True)
    viol = []

    def visit(t, prefix):
        path = prefix + (t["name"]["name"]["text"],)
        if "structure" in t:
            s = t["structure"]
            fields = s.get("field", [])
            order = s.get("fields_in_dependency_order", [])
            names = [f["name"]["name"]["text"] for f in fields]
            _st("structures_order_checked")
            if sorted(order) != list(range(len(fields))):
                viol.append(("order-not-permutation", "%s: order %r for %d fields" % (".".join(path), order, len(fields))))
            else:
                pos = {names[i]: k for k, i in enumerate(order)}
                params = set(p["name"]["name"]["text"] for p in t.get("runtime_parameter", []))
                core_valid_in_source = True
                all_valid_in_source = True
                for i, f in enumerate(fields):
                    core = set()
                    for part in ("location", "existence_condition", "read_transform"):
                        if part in f:
                            core |= field_refs(f[part], path)
                    allrefs = field_refs(f, path)
                    for dep in core:
                        if dep in params or dep not in pos or dep == names[i]:
                            continue
                        _st("order_edges_checked")
                        if pos[dep] > pos[names[i]]:
                            viol.append(("field-before-dependency", "%s: field %s is ordered before %s which its location/condition/value mentions" % (
                                ".".join(path), names[i], dep)))
                    for dep in allrefs:
                        if dep in names and dep != names[i] and names.index(dep) > i:
                            all_valid_in_source = False
                if all_valid_in_source:
                    _st("source_order_already_valid")
                    if order != list(range(len(fields))):
                        viol.append(("order-not-source-order", "%s: source order is already a valid dependency order but the ordering is %r" % (
                            ".".join(path), order)))
                else:
                    _st("source_order_needs_reordering")
        for st in t.get("subtype", []):
            visit(st, path)

    for t in d["module"][0].get("type", []):
        visit(t, ())
    return viol


def gen_graph_case(rng):
    """Returns (kind, files, expected) with expected in {'cycle', 'import-cycle', 'ok'}."""
    r = rng.random()
    if r < 0.25:
        # import graph
        k = rng.randint(2, 5)
        names = ["m.emb"] + ["f%d.emb" % i for i in range(1, k)]
        g = {n: set() for n in names}
        style = rng.random()
        for i, a in enumerate(names):
            for j, b in enumerate(names):
                if i == j:
                    if rng.random() < 0.05:
                        g[a].add(b)
                    continue
                p = 0.35 if (j > i or style < 0.35) else 0.0
                if rng.random() < p:
                    g[a].add(b)
        # reachable from m.emb only matters
        files = {}
        for idx, n in enumerate(names):
            lines = ['import "%s" as i%d' % (d, names.index(d)) for d in sorted(g[n])]
            lines.append("struct Imp%d:" % idx)
            lines.append("  0 [+1]  UInt  x")
            files[n] = "\n".join(lines) + "\n"
        reach = set()
        work = ["m.emb"]
        while work:
            x = work.pop()
            if x in reach:
                continue
            reach.add(x)
            work.extend(g[x])
        sub = {n: set(d for d in g[n] if d in reach) for n in reach}
        return "imports", files, "import-cycle" if cyclic_components(sub) else "ok"
    if r < 0.38:
        # constants spread over several types: `let x = Other.y + 1`, enum values defined as values of other enums, an
        # enum value taking a structure's constant; edges cross type boundaries through static references
        n = rng.randint(2, 9)
        types = ["Sa", "Sb", "Sc"][:rng.randint(2, 3)]
        home = [rng.choice(types) for _ in range(n)]
        names = ["k%d" % i for i in range(n)]
        g = {x: set() for x in names}
        style = rng.random()
        for i, a in enumerate(names):
            for j, b in enumerate(names):
                if i == j:
                    continue
                p = 0.25 if j > i else (0.08 if style < 0.5 else 0.0)
                if rng.random() < p:
                    g[a].add(b)
        body = {t: [] for t in types}
        order = list(range(n))
        rng.shuffle(order)
        for i in order:
            deps = ["%s.%s" % (home[names.index(d)], d) if (home[names.index(d)] != home[i] or rng.random() < 0.3) else d
                    for d in sorted(g[names[i]])]
            body[home[i]].append("  let %s = %s" % (names[i], " + ".join(deps + [str(rng.randint(0, 9))])))
        lines = ['[$default byte_order: "LittleEndian"]']
        for t in types:
            lines += ["struct %s:" % t, "  0 [+1]  UInt  filler"] + body[t]
        exp = bool(cyclic_components(g))
        kind = "cross-type"
        if rng.random() < 0.4:
            # two enums whose values are defined through each other / through a structure constant
            m = rng.randint(2, 5)
            ev = ["W%d_X" % i for i in range(m)]
            eh = [rng.choice(["Ea", "Eb"]) for _ in range(m)]
            eg = {x: set() for x in ev}
            for i, a in enumerate(ev):
                if rng.random() < 0.5:
                    b = rng.choice([x for x in ev if x != a] or [a])
                    if b != a:
                        eg[a].add(b)
            for en in ("Ea", "Eb"):
                mine = [i for i in range(m) if eh[i] == en]
                if not mine:
                    continue
                lines.append("enum %s:" % en)
                for i in mine:
                    d = sorted(eg[ev[i]])
                    lines.append("  %s = %s" % (ev[i], ("%s.%s" % (eh[ev.index(d[0])], d[0])) if d else str(rng.randint(0, 9))))
            exp = exp or bool(cyclic_components(eg))
            kind += "+enum"
        return kind, {"m.emb": "\n".join(lines) + "\n"}, "cycle" if exp else "ok"
    n = rng.randint(2, 14)
    if rng.random() < LONG_CHAIN_P[0]:
        n = rng.randint(60, LONG_CHAIN_MAX[0])  # long chains (inside the property's ~300 line bound)
    names = ["v%d" % i for i in range(n)]
    g = {x: set() for x in names}
    style = rng.random()
    if n > 40:
        for i in range(n - 1):
            g[names[i]].add(names[i + 1])
        if rng.random() < 0.5:
            g[names[-1]].add(names[rng.randrange(n)])
    else:
        for i, a in enumerate(names):
            for j, b in enumerate(names):
                if i == j:
                    if rng.random() < 0.03:
                        g[a].add(b)
                    continue
                p = 0.22 if (j > i) else (0.06 if style < 0.5 else 0.0)
                if rng.random() < p:
                    g[a].add(b)
    kind = "virtuals"
    lines = ['[$default byte_order: "LittleEndian"]', "struct Par(p: UInt:64):", "  0 [+1]  UInt  y",
             "struct Graph:", "  0 [+1]  UInt  base"]
    phys = {}
    order = list(range(n))
    if rng.random() < 0.5:
        rng.shuffle(order)
    if n <= 40 and rng.random() < 0.4:
        # some nodes are physical fields whose location / condition mention their successors
        kind = "mixed"
        for x in names:
            if rng.random() < 0.3:
                # "arg": a field of a parameterised type whose argument mentions the successors; it is mentioned
                # by others through its member y
                phys[x] = rng.choice(["loc", "cond", "size", "arg", "arg"])

    def term(d):
        return d + ".y" if phys.get(d) == "arg" else d

    for i in order:
        x = names[i]
        deps = [term(d) for d in sorted(g[x])]
        expr = " + ".join(deps + ["1"]) if deps else rng.choice(["base", "1", "base + 2"])
        if x in phys:
            if phys[x] == "arg":
                lines.append("  1 [+1]  Par(%s)  %s" % (expr, x))
            elif phys[x] == "loc":
                lines.append("  %s [+1]  UInt  %s" % ("(%s)" % expr if deps else "1", x))
            elif phys[x] == "size":
                lines.append("  1 [+%s]  UInt:8[]  %s" % ("(%s)" % expr if deps else "1", x))
            else:
                lines.append("  if (%s) > 0:" % expr)
                lines.append("    1 [+1]  UInt  %s" % x)
        else:
            lines.append("  let %s = %s" % (x, expr))
    exp_cycle = bool(cyclic_components(g))
    # arrays (size form) cannot be summed: a reference to a `size`-style node from an expression would be a
    # type error, so only keep 'size' on nodes nobody depends on
    for x, form in list(phys.items()):
        if form == "size" and any(x in g[y] for y in names):
            # rewrite as location form instead
            idx = [k for k, l in enumerate(lines) if l.endswith("UInt:8[]  %s" % x)]
            for k in idx:
                deps = [term(d) for d in sorted(g[x])]
                expr = " + ".join(deps + ["1"]) if deps else "1"
                lines[k] = "  %s [+1]  UInt  %s" % ("(%s)" % expr, x)
    files = {"m.emb": "\n".join(lines) + "\n"}
    if rng.random() < 0.25:
        # enum value graph too
        m = rng.randint(2, 6)
        en = ["E%d_V" % i for i in range(m)]
        eg = {x: set() for x in en}
        for i, a in enumerate(en):
            # an enum value may be defined as (exactly) another enum value: out-degree <= 1
            if rng.random() < 0.5:
                b = rng.choice(en)
                if b != a or rng.random() < 0.2:
                    eg[a].add(b)
        el = ["enum Ee:"]
        for x in en:
            deps = sorted(eg[x])
            el.append("  %s = %s" % (x, ("Ee.%s" % deps[0]) if deps else str(rng.randint(0, 9))))
        files["m.emb"] += "\n".join(el) + "\n"
        exp_cycle = exp_cycle or bool(cyclic_components(eg))
        kind += "+enum"
    return kind, files, "cycle" if exp_cycle else "ok"


def batch(arg):
    install()
    STATS.clear()
    if arg.get("thorough"):
        LONG_CHAIN_P[0], LONG_CHAIN_MAX[0] = 0.05, 200
    out = {"viol": [], "n": 0, "kinds": {}, "verdicts": {}, "samples": [], "distinct": []}
    corpus = [c for c in textgen.corpus() if c[1].strip()]
    for i in range(arg["start"], arg["start"] + arg["count"]):
        rng = common.case_rng(arg["seed"], "C15", i)
        r = rng.random()
        expected = None
        if r < 0.7:
            kind, files, expected = gen_graph_case(rng)
        elif r < 0.9:
            kind, files = "embgen", {"m.emb": embspec.render_module(embgen.Gen(rng).gen_module())}
        else:
            name, text = corpus[rng.randrange(len(corpus))]
            kind, files = "corpus", {"m.emb": text}
            import re
            for m in re.finditer(r'^\s*import\s+"([^"]*)"', text, re.M):
                for cname, ctext in corpus:
                    if cname.endswith("/" + m.group(1)) or cname == m.group(1):
                        files[m.group(1)] = ctext
        out["n"] += 1
        out["kinds"][kind] = out["kinds"].get(kind, 0) + 1
        del FOUND[:]
        try:
            ir, _d, errors = embc.parse(files, budget=150)
        except RecursionError:
            out["viol"].append({"mech": "no-termination:RecursionError", "what": "compiler hit the recursion limit on a %d-line input" % (
                files["m.emb"].count("\n")), "files": files, "case": i, "expected": expected})
            continue
        except embc.CpuBudgetExceeded:
            out["viol"].append({"mech": "no-termination:cpu-budget", "what": "compiler exceeded 150 CPU-seconds (a 200-field chain needs about 13)", "files": files,
                                "case": i, "expected": expected})
            continue
        except Exception as e:
            # an uncaught exception is C16's subject; here the case is a counted skip unless it was planted
            _st("compiler_crashed_skipped")
            if expected is not None:
                et, site = embc.crash_site(e)
                out["viol"].append({"mech": "crash-on-planted-graph:%s@%s" % (et, site), "what": repr(e), "files": files, "case": i,
                                    "expected": expected})
            continue
        for mech, what in FOUND:
            out["viol"].append({"mech": mech, "what": what, "files": files, "case": i})
        msgs = [m.message.split("\n")[0] for g in (errors or []) for m in g[:1]]
        got = "ok"
        if any(m == "Dependency cycle" for m in msgs):
            got = "cycle"
        elif any(m == "Import dependency cycle" for m in msgs):
            got = "import-cycle"
        elif errors:
            got = "other-error:" + msgs[0][:60]
        if expected is not None:
            out["verdicts"][expected] = out["verdicts"].get(expected, 0) + 1
            out["distinct"].append(hash((kind, expected, len(files["m.emb"]) // 40)))
            if got != expected:
                out["viol"].append({"mech": "cycle-verdict:%s-expected-%s" % (got.split(":")[0], expected),
                                    "what": "planted graph expects %s but compiler says %s" % (expected, got),
                                    "files": files, "case": i, "expected": expected})
            elif len(out["samples"]) < 1 and expected == "cycle" and len(files["m.emb"]) < 500:
                out["samples"].append({"case": i, "expected": expected, "text": files["m.emb"]})
        if not errors and ir is not None:
            for mech, what in check_orders(ir):
                out["viol"].append({"mech": mech, "what": what, "files": files, "case": i})
    out["stats"] = dict(STATS)
    out["viol"] = common.cap_by_mech(out["viol"])
    return out


def run(ctx):
    quick = ctx.tier == "quick"
    n = 1600 if quick else 30000
    per = 50 if quick else 500
    args = [{"seed": ctx.seed, "start": s, "count": min(per, n - s), "thorough": not quick} for s in range(0, n, per)]
    res = common.run_cases("c15", "batch", args, timeout=2400)
    for a, (st, val) in zip(args, res):
        if st != "ok" or not val.get("ok"):
            ctx.inconclusive_cases += a["count"]
            ctx.evaluations += a["count"]
            if st == "ok":
                print("worker error:", val.get("err"), val.get("tb", "")[-800:])
            continue
        v = val["val"]
        ctx.evaluations += v["n"]
        for k, c in v["kinds"].items():
            ctx.count("kind_" + k, c)
        for k, c in v["verdicts"].items():
            ctx.count("planted_" + k, c)
        for k, c in v["stats"].items():
            ctx.count(k, c)
        for h in v["distinct"]:
            ctx.distinct.add(h)
        for s in v["samples"]:
            ctx.sample(s, limit=3)
        for x in v["viol"]:
            ctx.violation("C15:" + x["mech"], x["what"], x)
    ctx.rule = ("case = planted random reference graph (2-14 nodes, or chains of 60-200) over virtual fields / field locations / "
                "conditions / enum values, or an import graph over 2-5 files, with the expected verdict from an own iterative SCC; "
                "plus semantic-generator modules and corpus for the order checker; distinct_nontrivial = distinct (kind, "
                "expected verdict, size class)")
    ctx.assumptions = ["'mentions' for the must-come-after clause = field references in location, existence_condition and "
                       "read_transform; for the equals-source-order clause the superset (any reference inside the field outside "
                       "attributes) is used so that the clause is only asserted when it must hold"]
    return ctx.finish(min_evals=n // 2, require=("planted_cycle", "planted_ok", "planted_import-cycle", "find_cycles_calls",
                                                 "structures_order_checked", "order_edges_checked", "source_order_needs_reordering"))


def replay(path):
    install()
    with open(path) as f:
        rp = json.load(f)["replay"]
    del FOUND[:]
    ir, _d, errors = embc.parse(rp["files"])
    msgs = [m.message.split("\n")[0] for g in (errors or []) for m in g[:1]]
    print("errors:", msgs[:4], "expected:", rp.get("expected"))
    bad = list(FOUND)
    if ir is not None and not errors:
        bad += check_orders(ir)
    exp = rp.get("expected")
    if exp:
        got = "cycle" if "Dependency cycle" in msgs else ("import-cycle" if "Import dependency cycle" in msgs else ("ok" if not errors else "other"))
        if got != exp:
            bad.append(("cycle-verdict", "expected %s got %s" % (exp, got)))
    for mech, what in bad:
        print("VIOLATION property=C15 replay=%s\n  %s: %s" % (path, mech, what))
    return 1 if bad else 0
