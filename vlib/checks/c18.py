"""C18 — the IR survives serialization; split and in-process pipelines agree.

Monitor at the boundary the two-program build uses: for every IR obtained from
the real glue.parse_emboss_file, round-trip through IrDataSerializer.to_json /
from_json and compare with an own deep comparer that follows the dataclass
fields (set/unset, which_* selectors, lists, enums, big integers as strings,
SourceLocation flags); to_json idempotent through the round trip; header from
the re-read IR == header from the in-memory IR.  Real CLI split path vs embossc
on a sample.  Node-kind coverage (class x populated field) is reported.
"""

import dataclasses
import enum
import json
import os

from vlib import common, embc, textgen
from vlib.checks import c17

LEVEL = "exploration"

EXTRA_SOURCES = [
    # hand-written modules aimed at node kinds the corpus may miss
    ("huge-constants", {"m.emb": "struct Foo:\n  0 [+8]  UInt  x\n  let a = 18446744073709551615\n  let b = -9223372036854775808\n"
                                 "  let c = 340282366920938463463374607431768211456 - 340282366920938463463374607431768211455\n"
                                 "  let d = 0x7fff_ffff_ffff_ffff\n"}),
    ("docs-attrs", {"m.emb": '-- module doc\n-- second line\n[$default byte_order: "LittleEndian"]\n[(cpp) namespace: "a::b"]\n'
                             'struct Foo:\n  -- struct doc\n  [requires: x > 3 && y != 2]\n  0 [+2]  UInt  x  -- inline doc\n    -- field doc\n'
                             '    [requires: this < 100]\n  2 [+2]  Int  y (yy)\n    [text_output: "Skip"]\n  let z = x + y\n    -- virtual doc\n'
                             'enum Ee:\n  -- enum doc\n  [maximum_bits: 12]\n  [is_signed: true]\n  AA = -1  -- value doc\n  BB = 2\n    [(cpp) enum_case: "kCamelCase"]\n'}),
    ("empty-struct", {"m.emb": "struct Empty:\n  -- nothing\n\nstruct Holder:\n  0 [+0]  Empty  e\n"}),
    ("params-arrays", {"m.emb": '[$default byte_order: "BigEndian"]\nstruct P(n: UInt:8, e: Ee):\n  0 [+n]  UInt:8[]  data\n'
                                '  if e == Ee.AA:\n    n [+4]  UInt  tail\n  n+4 [+2]  UInt:8[2]  pair\n'
                                'struct Q:\n  0 [+1]  UInt  len\n  1 [+1]  Ee  kind\n  2 [+len+6]  P(len, kind)  p\n'
                                '  $next [+12]  UInt:16[3][2]  grid\n'
                                'enum Ee:\n  AA = 0\n  BB = 1\n'}),
    ("bits-float-bcd", {"m.emb": '[$default byte_order: "LittleEndian"]\nstruct S:\n  0 [+4]  Float  f\n  4 [+8]  Float  g\n  12 [+2]  Bcd  b\n'
                                 '  14 [+2]  bits:\n    0 [+3]  UInt  u3\n    3 [+1]  Flag  fl\n    4 [+4]  Bcd  b1\n    8 [+8]  Int  i8\n'
                                 '  16 [+1]  bits  named_bits:\n    0 [+4]  UInt  lo\n    4 [+4]  UInt  hi\n'
                                 '  17 [+1]  enum  inl:\n    XX = 1\n    YY = 2\n'
                                 '  18 [+2]  struct  st:\n    0 [+2]  UInt  q\n'}),
    ("exprs", {"m.emb": "struct E:\n  0 [+1]  UInt  a\n  1 [+1]  UInt  b\n  2 [+1]  Flag  f\n"
                        "  let c = a < b && b <= 10 || a == b\n  let d = f ? a : b\n  let e = $max(a, b, 3) * 2 - 1\n"
                        "  let g = $present(a) && !f == false\n".replace("!f == false", "f != true") +
                        "  let h = $upper_bound(a) + $lower_bound(b)\n  let i = a > b ? $size_in_bytes : $max_size_in_bytes\n"
                        "  let j = E.c2\n  let c2 = 7\n  let k = a >= 1 ? (b != 0 ? 1 : 2) : 3\n"}),
    ("external", {"m.emb": 'external Ext:\n  -- ext doc\n  [addressable_unit_size: 8]\n  [fixed_size_in_bits: 32]\n  [is_integer: false]\n'
                           'struct U:\n  0 [+4]  Ext  x\n'}),
    ("imports", {"m.emb": 'import "i.emb" as imp\nstruct W:\n  0 [+1]  imp.Kind  k\n  1 [+2]  imp.Inner  inner\n  let v = imp.Inner.$size_in_bytes\n'
                          '  if k == imp.Kind.ONE:\n    3 [+1]  UInt  extra\n',
                 "i.emb": '[$default byte_order: "LittleEndian"]\nenum Kind:\n  ONE = 1\n  TWO = 2\nstruct Inner:\n  0 [+2]  UInt  v\n'}),
]


def deep_diff(a, b, path="ir"):
    """Own comparer over dataclass trees.  Returns first difference or None."""
    if type(a) is not type(b):
        # CopyValuesList vs list etc.: compare as sequences if both are sequences
        if isinstance(a, (list, tuple)) or hasattr(a, "__iter__") and not isinstance(a, (str, bytes)):
            if not (hasattr(b, "__iter__") and not isinstance(b, (str, bytes))):
                return "%s: type %s vs %s" % (path, type(a).__name__, type(b).__name__)
        else:
            return "%s: type %s vs %s (%r vs %r)" % (path, type(a).__name__, type(b).__name__, a, b)
    if dataclasses.is_dataclass(a):
        oneofs = set()
        for f in dataclasses.fields(a):
            va, vb = getattr(a, f.name), getattr(b, f.name)
            if "oneof" in f.metadata:
                oneofs.add(f.metadata["oneof"])
            if (va is None) != (vb is None):
                return "%s.%s: set/unset differs (%r vs %r)" % (path, f.name, va, vb)
            if va is not None:
                d = deep_diff(va, vb, path + "." + f.name)
                if d:
                    return d
        for o in oneofs:
            wa, wb = getattr(a, "which_" + o, None), getattr(b, "which_" + o, None)
            if wa != wb:
                return "%s.which_%s: %r vs %r" % (path, o, wa, wb)
        return None
    if isinstance(a, enum.Enum):
        return None if a is b else "%s: enum %r vs %r" % (path, a, b)
    if isinstance(a, (str, bytes, int, float, bool)) or a is None:
        return None if (a == b and type(a) is type(b)) else "%s: %r vs %r" % (path, a, b)
    if isinstance(a, tuple) and hasattr(a, "_fields"):  # SourceLocation / SourcePosition
        for fn in a._fields:
            d = deep_diff(getattr(a, fn), getattr(b, fn), path + "." + fn)
            if d:
                return d
        return None
    try:
        la, lb = list(a), list(b)
    except TypeError:
        return None if a == b else "%s: %r vs %r" % (path, a, b)
    if len(la) != len(lb):
        return "%s: length %d vs %d" % (path, len(la), len(lb))
    for i, (x, y) in enumerate(zip(la, lb)):
        d = deep_diff(x, y, "%s[%d]" % (path, i))
        if d:
            return d
    return None


def coverage_walk(obj, seen):
    if dataclasses.is_dataclass(obj):
        for f in dataclasses.fields(obj):
            v = getattr(obj, f.name)
            if v is None:
                continue
            try:
                if hasattr(v, "__len__") and not isinstance(v, (str, tuple)) and len(v) == 0:
                    continue
            except TypeError:
                pass
            seen.add("%s.%s" % (type(obj).__name__, f.name))
            if dataclasses.is_dataclass(v):
                coverage_walk(v, seen)
            elif not isinstance(v, (str, bytes, tuple)) and hasattr(v, "__iter__"):
                for x in v:
                    coverage_walk(x, seen)
            elif isinstance(v, tuple) and hasattr(v, "is_synthetic"):
                if v.is_synthetic:
                    seen.add("SourceLocation.is_synthetic")
                if v.is_disjoint_from_parent:
                    seen.add("SourceLocation.is_disjoint_from_parent")


def monitor_ir(ir, traits=True):
    """Returns list of (mech, what)."""
    from compiler.util import ir_data, ir_data_utils
    viol = []
    try:
        js = ir_data_utils.IrDataSerializer(ir).to_json()
        ir2 = ir_data_utils.IrDataSerializer.from_json(ir_data.EmbossIr, js)
    except Exception as e:
        et, site = embc.crash_site(e)
        return [("roundtrip-crash:%s@%s" % (et, site), "to_json/from_json raised %r" % (e,))]
    d = deep_diff(ir, ir2)
    if d:
        viol.append(("roundtrip-differs", d))
    try:
        if not (ir == ir2):
            if not d:
                viol.append(("roundtrip-eq-disagrees", "dataclass == says the re-read IR differs but the deep comparer finds no difference"))
    except Exception as e:
        viol.append(("eq-crash:" + type(e).__name__, repr(e)))
    js2 = ir_data_utils.IrDataSerializer(ir2).to_json()
    if js2 != js:
        k = 0
        while k < min(len(js), len(js2)) and js[k] == js2[k]:
            k += 1
        viol.append(("to_json-not-idempotent", "JSON differs after a round trip at offset %d: %r vs %r" % (
            k, js[max(0, k - 40):k + 40], js2[max(0, k - 40):k + 40])))
    try:
        h1, e1 = embc.header(ir, traits)
        h2, e2 = embc.header(ir2, traits)
    except Exception as e:
        return viol  # back-end crashes are C16's business
    if h1 != h2 or bool(e1) != bool(e2):
        la, lb = (h1 or "").split("\n"), (h2 or "").split("\n")
        k = 0
        while k < min(len(la), len(lb)) and la[k] == lb[k]:
            k += 1
        viol.append(("header-differs", "header from re-read IR differs at line %d: %r vs %r" % (k + 1, la[k:k + 1], lb[k:k + 1])))
    return viol


def colliding_modules(rng):
    """Main and imported module define types with the SAME names; main uses
    both the local and the imported ones (types, enum values, constants)."""
    names = rng.sample(["Header", "Body", "Kind", "Mode", "Tail", "Item"], rng.randint(2, 4))
    lib = ['[$default byte_order: "LittleEndian"]', '[(cpp) namespace: "gen::lib"]']
    main = ['import "lib.emb" as other', '[$default byte_order: "BigEndian"]', '[(cpp) namespace: "gen::main"]']
    kinds = {}
    for n in names:
        k = rng.choice(["struct", "enum"])
        kinds[n] = k
        for out, w in ((lib, rng.choice([1, 2])), (main, rng.choice([1, 2, 4]))):
            if k == "struct":
                out += ["struct %s:" % n, "  0 [+%d]  UInt  value" % w, "  let twice = value * 2", "  let konst = %d" % rng.randint(1, 9)]
            else:
                out += ["enum %s:" % n, "  [maximum_bits: 8]", "  FIRST = %d" % rng.randint(0, 3), "  SECOND = %d" % rng.randint(4, 9)]
        kinds[n] = (k,)
    main.append("struct User:")
    off = 0
    import re
    for n in names:
        k = kinds[n][0]
        for prefix, src in (("", main), ("other.", lib)):
            if k == "struct":
                w = int(re.search(r"struct %s:\n  0 \[\+(\d)\]" % n, "\n".join(src)).group(1))
                main.append("  %d [+%d]  %s%s  f%d" % (off, w, prefix, n, off))
                main.append("  let c%d = %s%s.konst" % (off, prefix, n))
                off += w
            else:
                main.append("  %d [+1]  %s%s  e%d" % (off, prefix, n, off))
                main.append("  let is%d = e%d == %s%s.SECOND" % (off, off, prefix, n))
                off += 1
    return {"m.emb": "\n".join(main) + "\n", "lib.emb": "\n".join(lib) + "\n"}


def deep_module(rng):
    """IR shapes much deeper or wider than anything under testdata/: long `$next` runs (each expands into the
    previous field's start + size), long operator chains, nested parentheses and choices, deeply nested subtypes,
    many fields / enum values, long names and documentation."""
    L = ['[$default byte_order: "LittleEndian"]']
    k = rng.random()
    if k < 0.3:
        n = rng.choice([10, 27, 40, 80, 150])
        L += ["struct Run:", "  0 [+1]  UInt  f0"] + ["  $next [+%d]  UInt  f%d" % (rng.choice([1, 2]), i) for i in range(1, n)]
    elif k < 0.55:
        n = rng.choice([10, 30, 60, 120])
        ops = [rng.choice(["+", "-", "+"]) for _ in range(n)]
        e = "a" + "".join(" %s %s" % (o, rng.choice(["a", "b", "1", "2"])) for o in ops)
        L += ["struct Chain:", "  0 [+1]  UInt  a", "  1 [+1]  UInt  b", "  let v = %s" % e]
        if rng.random() < 0.5:
            L.append("  let w = %s" % " && ".join(["a == %d" % rng.randint(0, 9) for _ in range(rng.choice([5, 40]))]))
    elif k < 0.75:
        n = rng.choice([8, 20, 45])
        e = "a"
        for i in range(n):
            e = rng.choice(["(%s + 1)", "$max(%s, b)", "(a < b ? %s : b)", "(%s)"]) % e
        L += ["struct Nest:", "  0 [+1]  UInt  a", "  1 [+1]  UInt  b", "  let v = %s" % e]
    elif k < 0.9:
        n = rng.choice([4, 9, 14])
        ind = ""
        for i in range(n):
            L.append("%sstruct Level%d:" % (ind, i))
            ind += "  "
        L.append("%s0 [+1]  UInt  leaf" % ind)
        for i in range(n - 1, 0, -1):
            ind = ind[:-2]
            L.append("%s0 [+1]  Level%d  down%d" % (ind, i, i))
    else:
        n = rng.choice([60, 200])
        L += ["enum Many:"] + ["  VALUE_%d = %d" % (i, i * 3) for i in range(n)]
        L += ["struct Wide:", "  -- " + "doc " * 200] + ["  %d [+1]  UInt  field_with_a_rather_long_name_%d" % (i, i) for i in range(n)]
    return {"m.emb": "\n".join(L) + "\n"}


def gen_sources(seed, start, count):
    corpus = [c for c in textgen.corpus() if c[1].strip()]
    out = []
    for i in range(start, start + count):
        rng = common.case_rng(seed, "C18", i)
        if i < len(EXTRA_SOURCES):
            name, files = EXTRA_SOURCES[i]
            out.append((name, dict(files), "m.emb"))
            continue
        r = rng.random()
        if r > 0.9:
            out.append(("colliding-names", colliding_modules(rng), "m.emb"))
            continue
        if r > 0.82:
            out.append(("deep-or-wide", deep_module(rng), "m.emb"))
            continue
        name, text = corpus[rng.randrange(len(corpus))]
        files = {"m.emb": text}
        if r < 0.75:
            t = text
            if len(t) > 3000:
                parts = t.split("\n\n\n")
                k = rng.randrange(len(parts))
                t = "\n\n\n".join(parts[:1] + parts[k:k + 3])
            files = {"m.emb": textgen.semantic_mutate(rng, t, rng.choice([1, 1, 2]))}
            name = "mutant:" + name
        import re
        for m in re.finditer(r'^\s*import\s+"([^"]*)"', files["m.emb"], re.M):
            for cname, ctext in corpus:
                if cname.endswith("/" + m.group(1)) or cname == m.group(1):
                    files.setdefault(m.group(1), ctext)
        out.append((name, files, "m.emb"))
    return out


def batch(arg):
    common.repo_on_path()
    out = {"viol": [], "n": 0, "accepted": 0, "rejected": 0, "crashed": 0, "coverage": [], "distinct": [], "samples": []}
    seen = set()
    for name, files, main in gen_sources(arg["seed"], arg["start"], arg["count"]):
        out["n"] += 1
        try:
            ir, _dbg, errors = embc.parse(files, main)
        except Exception:
            out["crashed"] += 1
            continue
        if errors or ir is None:
            out["rejected"] += 1
            continue
        out["accepted"] += 1
        coverage_walk(ir, seen)
        from compiler.util import ir_data_utils
        out["distinct"].append(hash(ir_data_utils.IrDataSerializer(ir.module[0]).to_json()))
        for mech, what in monitor_ir(ir):
            out["viol"].append({"mech": mech, "what": what, "files": files, "main": main, "source": name})
        if not out["samples"]:
            out["samples"].append({"source": name, "text": files[main][:600], "modules": len(ir.module)})
    out["coverage"] = sorted(seen)
    return out


def all_ir_fields():
    from compiler.util import ir_data
    out = set()
    for name in dir(ir_data):
        cls = getattr(ir_data, name)
        if isinstance(cls, type) and dataclasses.is_dataclass(cls) and cls is not ir_data.Message:
            for f in dataclasses.fields(cls):
                out.add("%s.%s" % (cls.__name__, f.name))
    return out


def run(ctx):
    quick = ctx.tier == "quick"
    n = 1200 if quick else 30000
    per = 60 if quick else 600
    args = [{"seed": ctx.seed, "start": s, "count": min(per, n - s)} for s in range(0, n, per)]
    ncli = 3 if quick else 40
    import concurrent.futures
    import threading
    cli_viol = []
    cli_done = [0]

    def cli_thread():
        srcs = [s for s in gen_sources(ctx.seed, 0, 400) if not s[0].startswith("mutant")][:ncli]
        with common.Scratch("c18") as scratch:
            with concurrent.futures.ThreadPoolExecutor(3) as ex:
                futs = [ex.submit(c17._cli_pair, scratch, i, s[1], s[2]) for i, s in enumerate(srcs)]
                for i, fu in enumerate(futs):
                    try:
                        for mech, what in fu.result():
                            if mech.startswith("split"):
                                cli_viol.append((mech, what, srcs[i]))
                        cli_done[0] += 1
                    except Exception as e:
                        print("cli pair failed:", repr(e))

    t = threading.Thread(target=cli_thread)
    t.start()
    res = common.run_cases("c18", "batch", args, timeout=2400, jobs=common.NCPU - 3)
    t.join()
    seen = set()
    for a, (st, val) in zip(args, res):
        if st != "ok" or not val.get("ok"):
            ctx.inconclusive_cases += a["count"]
            ctx.evaluations += a["count"]
            if st == "ok":
                print("worker error:", val.get("err"), val.get("tb", "")[-600:])
            continue
        v = val["val"]
        ctx.evaluations += v["n"]
        ctx.count("irs_round_tripped", v["accepted"])
        ctx.count("sources_rejected_skipped", v["rejected"])
        ctx.count("sources_crashed_skipped", v["crashed"])
        seen.update(v["coverage"])
        for h in v["distinct"]:
            ctx.distinct.add(h)
        for s in v["samples"]:
            ctx.sample(s, limit=3)
        for x in v["viol"]:
            ctx.violation("C18:" + x["mech"], "%s: %s" % (x["source"], x["what"]), x)
    ctx.count("cli_split_pairs", cli_done[0])
    for mech, what, src in cli_viol:
        ctx.violation("C18:" + mech, "%s: %s" % (src[0], what), {"source": src[0], "files": src[1], "main": src[2]})
    common.repo_on_path()
    allf = all_ir_fields()
    ctx.extra["ir_fields_populated"] = len(seen & allf)
    ctx.extra["ir_fields_total"] = len(allf)
    ctx.extra["ir_fields_never_populated"] = sorted(allf - seen)
    ctx.extra["location_flags_seen"] = sorted(s for s in seen if s.startswith("SourceLocation."))
    ctx.rule = ("case = source set (hand-written node-kind modules, corpus files, semantically mutated corpus); only accepted "
                "ones yield an IR to round-trip; distinct_nontrivial = distinct main-module IR JSON texts")
    ctx.assumptions = ["json module is correct", "own deep comparer follows dataclasses.fields and which_* selectors"]
    return ctx.finish(min_evals=n // 2, require=("irs_round_tripped", "cli_split_pairs"))


def replay(path):
    common.repo_on_path()
    with open(path) as f:
        rp = json.load(f)["replay"]
    ir, _d, errors = embc.parse(rp["files"], rp["main"])
    if errors:
        print("source is rejected now")
        return 0
    viol = monitor_ir(ir)
    for mech, what in viol:
        print("VIOLATION property=C18 replay=%s\n  %s: %s" % (path, mech, what))
    return 1 if viol else 0
