"""C05 — inferred integer bounds and alignments are sound, tight where
documented.

Invariant-at-a-hook: a post-condition wrapper on the real glue.process_ir
walks every integer Expression of every IR the front end returns and evaluates
the expression tree with an independent big-int evaluator (reads only operator
names, constants and references; never the annotations under test) under
environments giving every referenced physical field / parameter a value of its
declared physical type (corners, 0/+-1, random), shared across occurrences:
min <= value <= max, value = modular_value (mod modulus), constants exact,
$upper_bound/$lower_bound and the size bounds true bounds, every run-time
function node fits one 64-bit type with its operands.  Tightness is checked for
expressions where each variable occurs once and only + - * $max occur.
"""

import itertools
import json

from vlib import common, embc, embgen, embspec, monitors, textgen

LEVEL = "exploration"
FOUND = []
STATS = {}


def _st(k, n=1):
    STATS[k] = STATS.get(k, 0) + n


class Unk(Exception):
    pass


class Index(object):
    """Name -> definition lookup over the IR dict (own resolver)."""

    def __init__(self, d):
        self.types = {}
        for m in d["module"]:
            for t in m.get("type", []):
                self._add(m.get("source_file_name", ""), t, ())

    def _add(self, mf, t, prefix):
        path = prefix + (t["name"]["name"]["text"],)
        self.types[(mf, path)] = t
        for st in t.get("subtype", []):
            self._add(mf, st, path)

    def lookup(self, cn):
        mf = cn.get("module_file", "")
        path = tuple(cn["object_path"])
        t = self.types.get((mf, path[:-1]))
        if t is None:
            return None, None
        name = path[-1]
        for f in t.get("structure", {}).get("field", []):
            if f["name"]["name"]["text"] == name:
                return "field", (t, f)
        for p in t.get("runtime_parameter", []):
            if p["name"]["name"]["text"] == name:
                return "param", (t, p)
        for v in t.get("enumeration", {}).get("value", []):
            if v["name"]["name"]["text"] == name:
                return "enum_value", (t, v)
        return None, None

    def type_of(self, cn):
        return self.types.get((cn.get("module_file", ""), tuple(cn["object_path"])))


def const_of(e):
    """Value of a constant expression dict (no references), or None."""
    try:
        return Evaluator(None, {}).ev(e)
    except Unk:
        return None
    except KeyError:
        return None


def physical_range(idx, t, obj, kind):
    """[lo, hi] of a physical integer field / parameter, 'bool', ('enum', bits,
    signed) or None."""
    ty = obj.get("type") if kind == "field" else obj.get("physical_type_alias")
    if ty is None or "atomic_type" not in ty:
        return None
    ref = ty["atomic_type"]["reference"]["canonical_name"]
    name = tuple(ref["object_path"])
    bits = None
    if "size_in_bits" in ty:
        bits = const_of(ty["size_in_bits"])
    elif kind == "field":
        sz = const_of(obj["location"]["size"])
        if sz is not None:
            bits = sz * int(t.get("addressable_unit", 8))
    if ref.get("module_file", "") == "" and name in (("UInt",), ("Int",), ("Bcd",), ("Flag",)):
        if name == ("Flag",):
            return "bool"
        if bits is None or bits <= 0 or bits > 64:
            return None
        if name == ("UInt",):
            return (0, (1 << bits) - 1)
        if name == ("Int",):
            return (-(1 << (bits - 1)), (1 << (bits - 1)) - 1)
        return (0, 10 ** (bits // 4) * 2 ** (bits % 4) - 1)
    td = idx.type_of(ref)
    if td is not None and "enumeration" in td:
        return ("enum", td)
    return None


class Evaluator(object):
    def __init__(self, idx, env):
        self.idx = idx
        self.env = env  # key -> value for leaves
        self.depth = 0

    def ev(self, e):
        if "constant" in e:
            return int(e["constant"]["value"])
        if "boolean_constant" in e:
            return bool(e["boolean_constant"].get("value", False))
        if "constant_reference" in e:
            kind, obj = self.idx.lookup(e["constant_reference"]["canonical_name"])
            if kind == "enum_value":
                return self.ev(obj[1]["value"])
            if kind == "field" and "read_transform" in obj[1]:
                return self.ev(obj[1]["read_transform"])
            raise Unk()
        if "builtin_reference" in e:
            raise Unk()
        if "field_reference" in e:
            return self.ref(e["field_reference"]["path"])
        if "function" in e:
            f = e["function"]
            name = _fn_name(f)
            args = f.get("args", [])
            if name == "?:":
                return self.ev(args[1]) if self.ev(args[0]) else self.ev(args[2])
            if name == "&&":
                return all(self.ev(a) for a in args)
            if name == "||":
                return any(self.ev(a) for a in args)
            if name == "$present":
                # presence of a field is not an assignable input: it follows from that field's own condition, which may
                # even be a constant (the evaluator used to assume "present"; a field under a false constant is not)
                raise Unk()
            if name in ("$upper_bound", "$lower_bound"):
                raise Unk()  # judged separately as bounds of their argument
            vals = [self.ev(a) for a in args]
            if name == "+":
                return vals[0] + vals[1]
            if name == "-":
                return vals[0] - vals[1]
            if name == "*":
                return vals[0] * vals[1]
            if name == "==":
                return vals[0] == vals[1]
            if name == "!=":
                return vals[0] != vals[1]
            if name == "<":
                return vals[0] < vals[1]
            if name == "<=":
                return vals[0] <= vals[1]
            if name == ">":
                return vals[0] > vals[1]
            if name == ">=":
                return vals[0] >= vals[1]
            if name == "$max":
                return max(vals)
            raise Unk()
        raise Unk()

    def ref(self, path):
        last = path[-1]["canonical_name"]
        kind, obj = self.idx.lookup(last)
        if kind is None:
            raise Unk()
        key = tuple(".".join(p["canonical_name"]["object_path"]) for p in path)
        if kind == "field" and "read_transform" in obj[1]:
            ec = obj[1].get("existence_condition", {})
            if ec.get("type", {}).get("boolean", {}).get("value") is False or ec.get("boolean_constant", {}).get("value") is False:
                # the field sits under a condition that is a false constant: it never exists, so no environment gives it
                # a value (the property speaks of in-range values of the fields an expression mentions)
                raise Unk()
            if len(path) > 1:
                # a virtual field reached through another field: its own references are relative to
                # that instance; evaluate with a per-instance sub-environment
                sub = Evaluator(self.idx, self.env.setdefault(("inst",) + key[:-1], {}))
                sub.depth = self.depth + 1
                if sub.depth > 30:
                    raise Unk()
                return sub.ev(obj[1]["read_transform"])
            self.depth += 1
            if self.depth > 60:
                raise Unk()
            try:
                return self.ev(obj[1]["read_transform"])
            finally:
                self.depth -= 1
        if key in self.env:
            return self.env[key]
        raise KeyError(key)


def leaves_of(idx, e, out, prefix=(), depth=0):
    """Collects leaf variables (key -> range) an expression depends on."""
    if depth > 40:
        raise Unk()
    if "field_reference" in e:
        path = e["field_reference"]["path"]
        kind, obj = idx.lookup(path[-1]["canonical_name"])
        if kind is None:
            raise Unk()
        key = tuple(".".join(p["canonical_name"]["object_path"]) for p in path)
        if kind == "field" and "read_transform" in obj[1]:
            sub = out if len(path) == 1 else out.setdefault(("inst",) + key[:-1], {})
            leaves_of(idx, obj[1]["read_transform"], sub, (), depth + 1)
            return
        rng = physical_range(idx, obj[0], obj[1], kind)
        if rng is None:
            raise Unk()
        out[key] = rng
    elif "constant_reference" in e:
        kind, obj = idx.lookup(e["constant_reference"]["canonical_name"])
        if kind == "field" and "read_transform" in obj[1]:
            leaves_of(idx, obj[1]["read_transform"], out, (), depth + 1)
    elif "function" in e:
        name = _fn_name(e["function"])
        if name == "$present":
            return
        for a in e["function"].get("args", []):
            leaves_of(idx, a, out, prefix, depth + 1)
    elif "builtin_reference" in e:
        raise Unk()


def flatten(leaves):
    flat = []
    for k, v in leaves.items():
        if isinstance(v, dict):
            for kk, vv in flatten(v):
                flat.append(((k, kk), vv))
        else:
            flat.append((k, v))
    return flat


def build_env(leaves, choice):
    env = {}
    for k, v in leaves.items():
        if isinstance(v, dict):
            env[k] = build_env(v, choice)
        else:
            env[k] = choice(k, v)
    return env


def value_choices(rng, r):
    if r == "bool":
        return [False, True]
    if isinstance(r, tuple) and r[0] == "enum":
        vals = []
        for v in r[1]["enumeration"]["value"]:
            c = const_of(v["value"])
            if c is not None:
                vals.append(c)
        return vals or [0]
    lo, hi = r
    cs = {lo, hi, max(lo, min(hi, 0)), max(lo, min(hi, 1)), max(lo, min(hi, -1)), rng.randint(lo, hi), rng.randint(lo, hi)}
    return sorted(cs)


_FN_BY_ENUM = {"ADDITION": "+", "SUBTRACTION": "-", "MULTIPLICATION": "*", "EQUALITY": "==", "INEQUALITY": "!=", "AND": "&&",
               "OR": "||", "LESS": "<", "LESS_OR_EQUAL": "<=", "GREATER": ">", "GREATER_OR_EQUAL": ">=", "CHOICE": "?:",
               "MAXIMUM": "$max", "PRESENCE": "$present", "UPPER_BOUND": "$upper_bound", "LOWER_BOUND": "$lower_bound"}


def _fn_name(f):
    """Operator spelling of a function node; synthesized nodes carry only the enum."""
    n = f.get("function_name", {}).get("text")
    if n:
        return n
    return _FN_BY_ENUM.get(str(f.get("function", "")).split(".")[-1], "?")


def parse_bound(s):
    if s == "infinity":
        return float("inf")
    if s == "-infinity":
        return float("-inf")
    return int(s)


def _is_constant_node(node):
    t = node.get("type", {})
    if "integer" in t:
        return t["integer"].get("modulus") == "infinity"
    if "boolean" in t:
        return "value" in t["boolean"]
    if "enumeration" in t:
        return "value" in t["enumeration"]
    return False


def walk_expressions(node, fn, owner=None, folded=False):
    """`folded`: the node sits below an expression the compiler treats as a
    constant.  The back end renders such an expression as a literal and the
    64-bit gate deliberately does not descend into it, so its subexpressions
    are not run-time subexpressions (they are still checked for soundness)."""
    if isinstance(node, dict):
        is_expr = False
        if "type" in node and isinstance(node["type"], dict) and ("integer" in node["type"] or "boolean" in node["type"]
                                                                  or "enumeration" in node["type"]) and (
                "function" in node or "constant" in node or "field_reference" in node or "constant_reference" in node
                or "builtin_reference" in node or "boolean_constant" in node):
            is_expr = True
            if folded:
                node["~folded"] = True
            fn(node)
        below = folded or (is_expr and "function" in node and _is_constant_node(node))
        for k, v in list(node.items()):
            if k in ("source_location", "~folded"):
                continue
            walk_expressions(v, fn, None, below)
    elif isinstance(node, list):
        for v in node:
            walk_expressions(v, fn, None, folded)


def check_ir(ir, rng, text_for_report=""):
    """Returns list of (mech, what)."""
    from compiler.util import ir_data_utils
    d = ir_data_utils.IrDataSerializer(ir).to_dict(exclude_none=True)
    idx = Index(d)
    viol = []
    exprs = []
    walk_expressions(d["module"][0], exprs.append)
    for e in exprs:
        if "integer" not in e["type"]:
            # comparison / boolean-valued operator over integers: its operands must fit one 64-bit type
            if "function" in e and "boolean" in e["type"]:
                los, his, nonconst = [], [], False
                for a in e["function"].get("args", []):
                    ai = a.get("type", {}).get("integer")
                    if ai and ai.get("minimum_value") not in (None, "-infinity") and ai.get("maximum_value") not in (None, "infinity"):
                        los.append(int(ai["minimum_value"]))
                        his.append(int(ai["maximum_value"]))
                        if ai.get("modulus") != "infinity":
                            nonconst = True
                if los and nonconst and e.get("~folded"):
                    _st("fit_skipped_below_constant")
                elif los and nonconst:
                    _st("fit_checked")
                    _st("comparison_fit_checked")
                    L, H = min(los), max(his)
                    if not ((L >= -(1 << 63) and H < (1 << 63)) or (L >= 0 and H < (1 << 64))):
                        viol.append(("no-64-bit-type", "run-time comparison %s has operands spanning [%d, %d]: no single 64-bit type" % (
                            render(e), L, H)))
            continue
        ann = e["type"]["integer"]
        if not all(k in ann for k in ("modulus", "modular_value", "minimum_value", "maximum_value")):
            _st("unannotated")
            continue
        lo, hi = parse_bound(ann["minimum_value"]), parse_bound(ann["maximum_value"])
        mod = ann["modulus"]
        mv = int(ann["modular_value"])
        leaves = {}
        try:
            leaves_of(idx, e, leaves)
        except (Unk, KeyError, RecursionError):
            _st("expr_skipped_unsupported")
            continue
        flat = flatten(leaves)
        _st("expressions_checked")
        choices = {k: value_choices(rng, v) for k, v in flat}
        envs = []
        keys = [k for k, _ in flat]
        if len(keys) <= 6:
            corner = [sorted(set([c[0], c[-1]])) if not isinstance(c[0], bool) else c for c in (choices[k] for k in keys)]
            for combo in itertools.islice(itertools.product(*corner), 64):
                envs.append(dict(zip(keys, combo)))
        for _ in range(6):
            envs.append({k: rng.choice(choices[k]) for k in keys})

        def mk(assign):
            def choice(k, v, _p=()):
                return None
            # rebuild nested env
            def build(lv, pre):
                env = {}
                for k, v in lv.items():
                    if isinstance(v, dict):
                        env[k] = build(v, pre + (k,))
                    else:
                        kk = k
                        for p in reversed(pre):
                            kk = (p, kk)
                        env[k] = assign[kk]
                return env
            return build(leaves, ())

        seen_vals = []
        for assign in envs:
            try:
                val = Evaluator(idx, mk(assign)).ev(e)
            except (Unk, KeyError, RecursionError):
                _st("eval_skipped")
                continue
            if isinstance(val, bool):
                continue
            _st("evaluations")
            seen_vals.append(val)
            shown = {str(k): v for k, v in assign.items()}
            if not (lo <= val <= hi):
                viol.append(("bound-unsound", "expression %s evaluates to %d under %r but inferred range is [%s, %s]" % (
                    render(e), val, shown, ann["minimum_value"], ann["maximum_value"])))
                break
            if mod == "infinity":
                if val != mv:
                    viol.append(("constant-wrong", "expression %s is treated as the constant %d but evaluates to %d under %r" % (
                        render(e), mv, val, shown)))
                    break
            else:
                m = int(mod)
                if m > 0 and (val - mv) % m != 0:
                    viol.append(("modulus-unsound", "expression %s evaluates to %d under %r, not = %d (mod %d)" % (
                        render(e), val, shown, mv, m)))
                    break
        # 64-bit fit of run-time function nodes (from the annotations, as the compiler must guarantee)
        if "function" in e and mod != "infinity" and e.get("~folded"):
            _st("fit_skipped_below_constant")
        elif "function" in e and mod != "infinity" and lo != float("-inf") and hi != float("inf"):
            los, his = [lo], [hi]
            for a in e["function"].get("args", []):
                ai = a.get("type", {}).get("integer")
                if ai and ai.get("minimum_value") not in (None, "-infinity") and ai.get("maximum_value") not in (None, "infinity"):
                    if ai.get("modulus") != "infinity" or True:
                        los.append(int(ai["minimum_value"]))
                        his.append(int(ai["maximum_value"]))
            L, H = min(los), max(his)
            _st("fit_checked")
            if not ((L >= -(1 << 63) and H < (1 << 63)) or (L >= 0 and H < (1 << 64))):
                viol.append(("no-64-bit-type", "run-time expression %s with operands spans [%d, %d]: no single 64-bit type" % (
                    render(e), L, H)))
        # tightness (theorem class): every variable once, only + - * $max, all corners enumerated
        if seen_vals and len(keys) <= 6 and tight_class(e, idx) and len(keys) == count_refs(e):
            _st("tightness_checked")
            if lo != float("-inf") and hi != float("inf") and (min(seen_vals) != lo or max(seen_vals) != hi):
                viol.append(("bound-not-tight", "expression %s: inferred [%s, %s] but corner environments give [%d, %d]" % (
                    render(e), ann["minimum_value"], ann["maximum_value"], min(seen_vals), max(seen_vals))))
    # $upper_bound / $lower_bound nodes: bounds of their argument
    for e in exprs:
        if "function" in e and _fn_name(e["function"]) in ("$upper_bound", "$lower_bound"):
            arg = e["function"]["args"][0]
            ai = arg.get("type", {}).get("integer", {})
            ei = e.get("type", {}).get("integer", {})
            if "modular_value" in ei and ei.get("modulus") == "infinity":
                which = "maximum_value" if _fn_name(e["function"]) == "$upper_bound" else "minimum_value"
                _st("bound_functions_checked")
                if ai.get(which) != ei.get("modular_value"):
                    viol.append(("bound-function", "%s(%s) = %s but the argument's inferred %s is %s" % (
                        _fn_name(e["function"]), render(arg), ei.get("modular_value"), which, ai.get(which))))
    return viol


def count_refs(e):
    if "field_reference" in e:
        return 1
    if "function" in e:
        return sum(count_refs(a) for a in e["function"].get("args", []))
    return 0


def tight_class(e, idx):
    if "constant" in e:
        return True
    if "field_reference" in e:
        kind, obj = idx.lookup(e["field_reference"]["path"][-1]["canonical_name"])
        return kind in ("field", "param") and "read_transform" not in obj[1] and len(e["field_reference"]["path"]) == 1 and \
            isinstance(physical_range(idx, obj[0], obj[1], kind), tuple) and physical_range(idx, obj[0], obj[1], kind)[0] != "enum"
    if "function" in e:
        return _fn_name(e["function"]) in ("+", "-", "*", "$max") and all(tight_class(a, idx) for a in e["function"]["args"])
    return False


def render(e):
    if "constant" in e:
        return e["constant"]["value"]
    if "boolean_constant" in e:
        return str(e["boolean_constant"].get("value", False)).lower()
    if "field_reference" in e:
        return ".".join(p["source_name"][-1]["text"] if p.get("source_name") else p["canonical_name"]["object_path"][-1]
                        for p in e["field_reference"]["path"])
    if "constant_reference" in e:
        return ".".join(e["constant_reference"]["canonical_name"]["object_path"])
    if "builtin_reference" in e:
        return e["builtin_reference"]["canonical_name"]["object_path"][-1]
    if "function" in e:
        n = _fn_name(e["function"])
        a = [render(x) for x in e["function"].get("args", [])]
        if n == "?:":
            return "(%s ? %s : %s)" % tuple(a)
        if n.startswith("$"):
            return "%s(%s)" % (n, ", ".join(a))
        return "(" + (" %s " % n).join(a) + ")"
    return "?"


_RNG = [None]


def _post(_state, result, ir_in, stop_before_step):
    ir, errors = result
    if ir is None or errors or stop_before_step is not None:
        return
    _st("process_ir_calls_checked")
    try:
        for mech, what in check_ir(ir, _RNG[0]):
            FOUND.append((mech, what))
    except RecursionError:
        _st("ir_skipped_recursion")


_INSTALLED = [False]


def install():
    if _INSTALLED[0]:
        return
    common.repo_on_path()
    from compiler.front_end import glue
    monitors.wrap(glue, "process_ir", post=_post)
    _INSTALLED[0] = True


def expr_module(rng):
    """Expression-heavy module: many virtual fields over variables of widths
    1..64 with constants at power-of-two edges."""
    nvars = rng.randint(1, 5)
    lines = ['[$default byte_order: "LittleEndian"]', "struct Expr(p: UInt:%d, q: Int:%d):" % (rng.choice([1, 7, 8, 16]), rng.choice([2, 8, 16]))]
    names = ["p", "q"]
    widths = {}
    off = 0
    for i in range(nvars):
        k = rng.random()
        nb = rng.choice([1, 1, 2, 2, 3, 4, 8, 8])
        widths['%d' % i] = nb
        if k < 0.5:
            lines.append("  %d [+%d]  UInt  u%d" % (off, nb, i))
            names.append("u%d" % i)
        elif k < 0.8:
            lines.append("  %d [+%d]  Int  s%d" % (off, nb, i))
            names.append("s%d" % i)
        else:
            lines.append("  %d [+%d]  Bcd  b%d" % (off, nb, i))
            names.append("b%d" % i)
        off += nb
    twins = []
    if rng.random() < 0.6:
        # two fields of one structure type: members with the same name but different paths (a.x vs b.x)
        lines.insert(1, "struct Pair:\n  0 [+1]  Int  x\n  1 [+1]  UInt  y\n  2 [+2]  Int  z\n  let w = x - 3")
        lines.append("  %d [+4]  Pair  pa" % off)
        lines.append("  %d [+4]  Pair  pb" % (off + 4))
        off += 8
        twins = ["pa.x", "pb.x", "pa.y", "pb.y", "pa.z", "pb.z", "pa.w", "pb.w"]
        names += twins
    lines.append("  %d [+1]  bits:" % off)
    lines.append("    0 [+1]  Flag  fl")
    lines.append("    1 [+3]  UInt  t3")
    lines.append("    4 [+4]  Int  i4")
    names += ["t3", "i4"]
    consts = ["0", "1", "2", "3", "7", "8", "255", "256", "65535", "4294967295", "4294967296", "2147483647", "2147483648", "100", "1000000"]

    def ex(depth, small):
        r = rng.random()
        if depth > 3 or r < 0.3:
            if rng.random() < 0.65:
                return rng.choice(small)
            return rng.choice(consts[:8] if depth > 1 else consts)
        a, b = ex(depth + 1, small), ex(depth + 1, small)
        if r < 0.5:
            return "(%s + %s)" % (a, b)
        if r < 0.65:
            return "(%s - %s)" % (a, b)
        if r < 0.78:
            if twins and rng.random() < 0.4:
                m = rng.choice("xyzw")
                return "(pa.%s * p%s.%s)" % (m, rng.choice("ab"), m)  # same member of two fields, or a true square
            return "(%s * %s)" % (rng.choice(small), rng.choice(consts[:9] + small))
        if r < 0.88:
            return "$max(%s, %s)" % (a, b)
        c = rng.choice(["fl", "%s < %s" % (rng.choice(small), rng.choice(consts[:8])), "%s == %s" % (rng.choice(small), rng.choice(small)),
                        "%s >= %s" % (a, rng.choice(consts[:6]))])
        return "(%s ? %s : %s)" % (c, a, b)

    small = [n for n in names if not (n.startswith(("u", "s")) and False)]
    # variables wider than 2 bytes only appear un-multiplied to stay inside 64 bits
    for j in range(rng.randint(8, 25)):
        e = ex(0, small)
        lines.append("  let v%d = %s" % (j, e))
        if rng.random() < 0.25:
            lines.append("  let ub%d = $upper_bound(v%d) - $lower_bound(v%d)" % (j, j, j))
        if rng.random() < 0.4:
            small.append("v%d" % j)
    # run-time comparisons between operands of different widths and signedness (each on its own line, so
    # that a rejected one does not hide the others... the compiler reports all of them)
    wide = [n for n in names if n[0] == "u" and widths.get(n[1:]) == 8]
    signed = [n for n in names if n[0] in "sq" or n == "i4"]
    if wide and signed and rng.random() < 0.5:
        # an operand that needs uint64 against one that can be negative: no common 64-bit type
        lines.append("  let cmpw = %s %s %s" % (rng.choice(wide), rng.choice(["==", "<", ">="]), rng.choice(signed)))
    for j in range(rng.randint(1, 4)):
        a, b = rng.choice(small), rng.choice(small + consts[:6])
        lines.append("  let cmp%d = %s %s %s" % (j, a, rng.choice(["==", "!=", "<", "<=", ">", ">="]), b))
    return "\n".join(lines) + "\n"


def batch(arg):
    install()
    STATS.clear()
    out = {"viol": [], "n": 0, "accepted": 0, "kinds": {}, "samples": []}
    corpus = [c for c in textgen.corpus() if c[1].strip()]
    for i in range(arg["start"], arg["start"] + arg["count"]):
        rng = common.case_rng(arg["seed"], "C05", i)
        _RNG[0] = rng
        r = rng.random()
        if r < 0.55:
            kind, files = "expr", {"m.emb": expr_module(rng)}
        elif r < 0.85:
            kind, files = "embgen", {"m.emb": embspec.render_module(embgen.Gen(rng).gen_module())}
        else:
            name, text = corpus[rng.randrange(len(corpus))]
            kind, files = "corpus", {"m.emb": text}
            import re
            for m in re.finditer(r'^\s*import\s+"([^"]*)"', text, re.M):
                for cname, ctext in corpus:
                    if cname.endswith("/" + m.group(1)) or cname == m.group(1):
                        files[m.group(1)] = ctext
        out["n"] += 1
        out["kinds"][kind] = out["kinds"].get(kind, 0) + 1
        del FOUND[:]
        try:
            ir, _d, errors = embc.parse(files)
        except Exception:
            continue
        if errors:
            out["kinds"][kind + "_rejected"] = out["kinds"].get(kind + "_rejected", 0) + 1
            continue
        out["accepted"] += 1
        for mech, what in FOUND:
            out["viol"].append({"mech": mech, "what": what, "files": files, "case": i})
        if not out["samples"] and kind == "expr":
            out["samples"].append({"case": i, "text": files["m.emb"][:700]})
    out["stats"] = dict(STATS)
    out["viol"] = common.cap_by_mech(out["viol"])
    return out


def run(ctx):
    quick = ctx.tier == "quick"
    n = 640 if quick else 8000
    per = 20 if quick else 100
    args = [{"seed": ctx.seed, "start": s, "count": min(per, n - s)} for s in range(0, n, per)]
    res = common.run_cases("c05", "batch", args, timeout=1800)
    for a, (st, val) in zip(args, res):
        if st != "ok" or not val.get("ok"):
            ctx.inconclusive_cases += a["count"]
            ctx.evaluations += a["count"]
            if st == "ok":
                print("worker error:", val.get("err"), val.get("tb", "")[-800:])
            continue
        v = val["val"]
        ctx.evaluations += v["n"]
        ctx.count("modules_accepted", v["accepted"])
        for k, c in v["kinds"].items():
            ctx.count("kind_" + k, c)
        for k, c in v["stats"].items():
            ctx.count(k, c)
        for s in v["samples"]:
            ctx.sample(s, limit=3)
        for x in v["viol"]:
            ctx.violation("C05:" + x["mech"], x["what"], x)
    for i in range(min(ctx.counters.get("expressions_checked", 0), 100000) // 1000):
        ctx.nontrivial(("k-expr", i))
    ctx.extra["distinct_note"] = "distinct_nontrivial counts thousands of integer expressions checked (1 per 1000)"
    ctx.rule = ("case = one module (expression-heavy generator with 1..8-byte variables, parameters, flags and constants at "
                "2^8/2^16/2^31/2^32 edges; semantic-generator modules; corpus); every integer Expression node of the returned IR "
                "is evaluated under corner (<= 64) and random environments; distinct_nontrivial = thousands of expressions checked")
    ctx.assumptions = ["physical ranges come from the declared types (UInt:n, Int:n, Bcd:n, Flag, enum values)",
                       "builtins ($size_in_*, $is_statically_sized...) inside an expression make it 'unsupported' and it is skipped"]
    return ctx.finish(min_evals=n // 2, require=("process_ir_calls_checked", "expressions_checked", "evaluations",
                                                 "tightness_checked", "fit_checked", "bound_functions_checked"))


def replay(path):
    install()
    import random
    with open(path) as f:
        rp = json.load(f)["replay"]
    _RNG[0] = random.Random(rp.get("case", 0))
    del FOUND[:]
    embc.parse(rp["files"])
    for mech, what in FOUND:
        print("VIOLATION property=C05 replay=%s\n  %s: %s" % (path, mech, what))
    return 1 if FOUND else 0
