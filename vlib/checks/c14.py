"""C14 — physical layout and attribute rules are enforced exactly as
documented.

Two-sided acceptance oracle by construction.  A module is composed of random
*realisable* snippets that sit ON the documented boundaries (widths 1 and 64,
Float 32/64, enum fields at exactly maximum_bits, 64-bit bits, values at the
edges of the enum's range, attributes in their allowed scope) and must be
accepted; with probability 0.7 exactly one snippet from the catalogue of
single-rule violations (one step beyond each boundary) is inserted and the
module must be rejected, without a crash, with an error in that snippet.
Reserved words come from compiler/front_end/reserved_words (by token shape).
"""

import json
import os
import re

from vlib import common, embc

LEVEL = "exploration"


def positives(rng, uid):
    """One realisable snippet; type names are made unique with uid."""
    T = "T%dx" % uid
    E = "En%dx" % uid
    B = "Bi%dx" % uid
    opts = [
        "struct %s:\n  0 [+%d]  UInt  a\n" % (T, rng.choice([1, 2, 3, 7, 8])),
        "struct %s:\n  0 [+%d]  Int  a\n  8 [+%d]  Bcd  b\n" % (T, rng.choice([1, 8]), rng.choice([1, 8])),
        "struct %s:\n  0 [+4]  Float  f\n  4 [+8]  Float  g\n" % T,
        "bits %s:\n  0 [+1]  UInt  a\n  1 [+1]  Int  b\n  2 [+1]  Flag  c\n  3 [+1]  Bcd  d\n  4 [+60]  UInt  e\n" % B,
        "bits %s:\n  0 [+64]  UInt  whole\n" % B,
        "bits %s:\n  0 [+64]  Int  whole\n  0 [+64]  Bcd  again\n" % B,
        "enum %s:\n  [maximum_bits: 8]\n  LO = 0\n  HI = 255\nstruct %s:\n  0 [+1]  %s  e\n" % (E, T, E),
        "enum %s:\n  [maximum_bits: 8]\n  [is_signed: true]\n  LO = -128\n  HI = 127\nstruct %s:\n  0 [+1]  %s  e\n" % (E, T, E),
        "enum %s:\n  LO = 0\n  HI = 18446744073709551615\nstruct %s:\n  0 [+8]  %s  e\n" % (E, T, E),
        "enum %s:\n  LO = -9223372036854775808\n  HI = 9223372036854775807\n" % E,
        "enum %s:\n  [maximum_bits: 1]\n  OFF = 0\n  ON = 1\nbits %s:\n  0 [+1]  %s  e\n" % (E, B, E),
        "enum %s:\n  [maximum_bits: 64]\n  ONLY = 1\n" % E,
        "enum %s:\n  [maximum_bits: 12]\n  ONLY = 4095\nbits %s:\n  0 [+12]  %s  e\n  12 [+4]  UInt  pad\n" % (E, B, E),
        "struct %s:\n  0 [+4]  UInt:8[4]  arr\n  4 [+6]  UInt:16[3]  arr2\n  10 [+6]  UInt:8[2][3]  arr3\n  16 [+4]  UInt:8[]  arr4\n" % T,
        "struct %s:\n  0 [+2]  UInt:16  sized\n  2 [+1]  UInt:8  e2\n" % T,
        'struct %s:\n  0 [+2]  UInt  a\n    [byte_order: "BigEndian"]\n  2 [+1]  UInt  b\n    [byte_order: "Null"]\n' % T,
        'struct %s:\n  [$default byte_order: "BigEndian"]\n  0 [+4]  UInt  a\n  4 [+4]  Int  b\n    [byte_order: "LittleEndian"]\n' % T,
        "struct %s:\n  [requires: a > 1]\n  0 [+1]  UInt  a\n    [requires: this < 10]\n" % T,
        'struct %s:\n  0 [+1]  UInt  a\n    [text_output: "Skip"]\n  1 [+1]  UInt  b\n    [text_output: "Emit"]\n' % T,
        "struct %s:\n  [fixed_size_in_bits: 24]\n  0 [+3]  UInt  a\n" % T,
        "struct %s:\n  0 [+1]  bits:\n    0 [+4]  UInt  lo\n    4 [+4]  UInt  hi\n  1 [+8]  bits:\n    0 [+64]  UInt  wide\n" % T,
        "struct %s:\n  0 [+1]  UInt  n\n  1 [+n]  UInt:8[n]  data\n  1 [+n*2]  UInt:16[n]  data2\n" % T,
        "struct %sInner:\n  0 [+2]  UInt  v\nstruct %s:\n  0 [+2]  %sInner  one\n  2 [+6]  %sInner[3]  many\n" % (T, T, T, T),
        'enum %s:\n  [(cpp) enum_case: "kCamelCase"]\n  SOME_VALUE = 1\n' % E if False else "enum %s:\n  SOME_VALUE = 1\n    [(cpp) enum_case: \"kCamelCase\"]\n" % E,
        "struct %s:\n  0 [+1]  enum  mode:\n    [maximum_bits: 8]\n    AA = 1\n  1 [+1]  bits  flags:\n    0 [+8]  UInt  all\n" % T if False else
        "struct %s:\n  0 [+1]  enum  mode:\n    AA = 1\n  1 [+1]  bits  flags:\n    0 [+8]  UInt  all\n" % T,
    ]
    return rng.choice(opts)


_RESERVED = []


def reserved_words():
    if not _RESERVED:
        p = os.path.join(common.REPO, "compiler", "front_end", "reserved_words")
        with open(p) as f:
            for line in f:
                w = line.partition("#")[0].strip()
                if w and not w.startswith("--"):
                    _RESERVED.append(w)
    return _RESERVED


def negatives(rng, uid):
    """(snippet, rule): one step beyond a documented boundary."""
    T = "N%dx" % uid
    E = "Ne%dx" % uid
    B = "Nb%dx" % uid
    snake = [w for w in reserved_words() if re.fullmatch(r"[a-z][a-z_0-9]*", w) and w not in (
        "struct", "bits", "enum", "external", "import", "as", "if", "let", "true", "false")]
    camel = [w for w in reserved_words() if re.fullmatch(r"[A-Z][a-zA-Z0-9]*[a-z][a-zA-Z0-9]*", w)]
    shouty = [w for w in reserved_words() if re.fullmatch(r"[A-Z][A-Z_0-9]*[A-Z_][A-Z_0-9]*", w)]
    opts = [
        ("struct %s:\n  0 [+9]  UInt  a\n" % T, "uint-72-bits"),
        ("struct %s:\n  0 [+0]  UInt  a\n" % T, "uint-0-bits"),
        ("bits %s:\n  0 [+0]  Int  a\n  0 [+8]  UInt  b\n" % B, "int-0-bits"),
        ("struct %s:\n  0 [+9]  Int  a\n" % T, "int-72-bits"),
        ("struct %s:\n  0 [+9]  Bcd  a\n" % T, "bcd-72-bits"),
        ("bits %s:\n  0 [+2]  Flag  f\n" % B, "flag-2-bits"),
        ("struct %s:\n  0 [+1]  Flag  f\n" % T, "flag-8-bits"),
        ("struct %s:\n  0 [+%d]  Float  f\n" % (T, rng.choice([1, 2, 3, 5, 7])), "float-bad-width"),
        ("bits %s:\n  0 [+33]  Float  f\n" % B, "float-33-bits"),
        ("enum %s:\n  [maximum_bits: 8]\n  ONLY = 1\nstruct %s:\n  0 [+2]  %s  e\n" % (E, T, E), "enum-field-wider-than-maximum-bits"),
        ("enum %s:\n  ONLY = 1\nstruct %s:\n  0 [+9]  %s  e\n" % (E, T, E), "enum-field-72-bits"),
        ("enum %s:\n  ONLY = 1\nbits %s:\n  0 [+0]  %s  e\n  0 [+8]  UInt  pad\n" % (E, B, E), "enum-field-0-bits"),
        ("enum %s:\n  [maximum_bits: 8]\n  TOO_BIG = 256\n" % E, "enum-value-above-maximum-bits"),
        ("enum %s:\n  [is_signed: false]\n  NEGATIVE = -1\n" % E, "negative-value-in-unsigned-enum"),
        ("enum %s:\n  [maximum_bits: 8]\n  [is_signed: true]\n  TOO_BIG = 128\n" % E, "signed-enum-value-above-range"),
        ("enum %s:\n  [maximum_bits: 8]\n  [is_signed: true]\n  TOO_SMALL = -129\n" % E, "signed-enum-value-below-range"),
        ("enum %s:\n  TOO_BIG = 18446744073709551616\n" % E, "enum-value-above-64-bits"),
        ("enum %s:\n  TOO_SMALL = -9223372036854775809\n" % E, "enum-value-below-64-bits"),
        ("enum %s:\n  NEGATIVE = -1\n  HUGE = 9223372036854775808\n" % E, "enum-values-need-both-signs-of-64-bits"),
        ("enum %s:\n  [maximum_bits: 0]\n  ONLY = 0\n" % E, "maximum-bits-0"),
        ("enum %s:\n  [maximum_bits: 65]\n  ONLY = 0\n" % E, "maximum-bits-65"),
        ("bits %s:\n  0 [+64]  UInt  a\n  64 [+1]  Flag  b\n" % B, "bits-65-bits"),
        ("bits %s:\n  0 [+8]  UInt  n\n  8 [+n]  UInt  dyn\n" % B, "bits-runtime-size"),
        ("struct %sInner:\n  0 [+1]  UInt  v\nbits %s:\n  0 [+8]  %sInner  s\n" % (T, B, T), "bits-contains-struct"),
        ("struct %sDyn:\n  0 [+1]  UInt  n\n  1 [+n]  UInt:8[]  d\nstruct %s:\n  0 [+8]  %sDyn[2]  arr\n" % (T, T, T), "array-of-variable-size-elements"),
        ("struct %s:\n  0 [+4]  UInt:8[][2]  arr\n" % T, "inner-array-length-omitted"),
        ("struct %s:\n  0 [+1]  UInt  n\n  1 [+4]  UInt:8[n][2]  arr\n" % T, "inner-array-length-not-constant"),
        ("struct %s:\n  0 [+1]  UInt:4[2]  arr\n" % T, "sub-byte-array-elements-in-struct"),
        ("struct %s:\n  0 [+2]  UInt:8  a\n" % T, "explicit-size-does-not-match-field"),
        ("struct %sInner:\n  0 [+2]  UInt  v\nstruct %s:\n  0 [+3]  %sInner  s\n" % (T, T, T), "fixed-size-type-in-wrong-size-field"),
        ("struct %s:\n  0 [+2]  UInt  a\n    [byte_order: \"Null\"]\n" % T, "null-byte-order-on-multibyte"),
        ("struct %s:\n  0 [+2]  UInt  a\n    [byte_order: \"Middle\"]\n" % T, "invalid-byte-order-value"),
        ("struct %s:\n  0 [+2]  UInt  a\n    [byte_order: 1]\n" % T, "byte-order-wrong-type"),
        ("struct %s:\n  0 [+1]  UInt  a\n    [no_such_attribute: 1]\n" % T, "unknown-attribute"),
        ("struct %s:\n  0 [+2]  UInt  a\n    [byte_order: \"BigEndian\"]\n    [byte_order: \"BigEndian\"]\n" % T, "duplicate-attribute"),
        ("enum %s:\n  [byte_order: \"BigEndian\"]\n  ONLY = 1\n" % E, "byte-order-on-enum"),
        ("struct %s:\n  [maximum_bits: 8]\n  0 [+1]  UInt  a\n" % T, "maximum-bits-on-struct"),
        ("enum %s:\n  [requires: true]\n  ONLY = 1\n" % E, "requires-on-enum"),
        ("enum %s:\n  [maximum_bits: \"8\"]\n  ONLY = 1\n" % E, "maximum-bits-wrong-type"),
        ("enum %s:\n  [is_signed: 3]\n  ONLY = 1\n" % E, "is-signed-wrong-type"),
        ("struct %s:\n  [fixed_size_in_bits: a]\n  0 [+1]  UInt  a\n" % T, "non-constant-attribute"),
        ("struct %s:\n  [$default requires: true]\n  0 [+1]  UInt  a\n" % T, "default-on-non-defaultable-attribute"),
        ("struct %s:\n  0 [+1]  UInt  a\n    [(cpp) byte_order: \"Null\"]\n" % T, "backend-qualifier-on-core-attribute"),
        ("struct %s:\n  0 [+1]  UInt  a\n    [(java) whatever: 1]\n" % T, "unknown-backend-qualifier"),
        ("struct %s:\n  0 [+4]  UInt:8[4]  arr\n    [requires: true]\n" % T, "requires-on-array"),
        ("struct %s:\n  [fixed_size_in_bits: 16]\n  0 [+3]  UInt  a\n" % T, "fixed-size-in-bits-mismatch"),
        ("struct %s:\n  0 [+1]  UInt  a\n    [text_output: \"Sometimes\"]\n" % T, "invalid-text-output-value"),
        ("struct %s:\n  0 [+1]  UInt  %s\n" % (T, rng.choice(snake)), "reserved-word-as-field-name"),
        ("struct %s:\n  0 [+1]  UInt  a\n" % rng.choice(camel), "reserved-word-as-type-name") if camel else None,
        ("enum %s:\n  %s = 1\n" % (E, rng.choice(shouty)), "reserved-word-as-enum-value"),
        ("struct %s:\n  let %s = 1\n  0 [+1]  UInt  a\n" % (T, rng.choice(snake)), "reserved-word-as-virtual-field-name"),
    ]
    opts = [o for o in opts if o]
    if rng.random() < 0.12:
        # an explicit width after the type name must equal the field's size, whatever the type, container and width
        # (0 included).  (Nothing documented relates an array field's size to length x element width, and the
        # compiler accepts `0 [+3] UInt:32[3]`: not judged.)
        in_bits = rng.random() < 0.5
        fsize = rng.choice([1, 2, 3, 4, 5, 7, 8, 12, 16, 24, 32]) if in_bits else rng.choice([1, 2, 3, 4, 8])
        fbits = fsize if in_bits else fsize * 8
        ty = rng.choice(["UInt", "Int", "Bcd", E])
        width = rng.choice([w for w in (0, 0, 0, 1, fbits - 1, fbits + 1, fbits * 2, 8, 16, 32, 64) if w != fbits and w >= 0])
        pre = ("enum %s:\n  ONLY = 1\n" % E) if ty == E else ""
        head = ("bits %s:" % B) if in_bits else ("struct %s:" % T)
        return pre + "%s\n  0 [+%d]  %s:%d  a\n" % (head, fsize, ty, width), (
            "explicit-size-0-in-nonempty-field" if width == 0 else "explicit-size-does-not-match-field")
    return rng.choice(opts)


def build(rng):
    """Returns (files, rule or None, (first_line, last_line) of the negative snippet)."""
    default_bo = rng.random() < 0.92
    parts = []
    n = rng.randint(1, 4)
    for i in range(n):
        parts.append(positives(rng, i))
    rule, span = None, None
    if rng.random() < 0.7:
        neg, rule = negatives(rng, 99)
        k = rng.randint(0, len(parts))
        parts.insert(k, neg)
    elif not default_bo and rng.random() < 0.7:
        # missing byte order: a module without $default byte_order whose other definitions need none (one-byte fields,
        # arrays of one-byte elements, explicitly ordered fields), plus ONE byte-order-dependent field without it
        parts = []
        for i in range(rng.randint(0, 2)):
            parts.append(rng.choice([
                "struct Free%d:\n  0 [+1]  UInt  a\n  1 [+1]  Int  b\n  2 [+4]  UInt:8[4]  arr\n" % i,
                "struct Free%d:\n  0 [+1]  bits:\n    0 [+4]  UInt  lo\n    4 [+4]  UInt  hi\n  1 [+2]  UInt  w\n    [byte_order: \"BigEndian\"]\n" % i,
                "enum FreeE%d:\n  ONLY = 1\nstruct Free%d:\n  0 [+1]  FreeE%d  e\n  1 [+1]  Bcd  d\n" % (i, i, i),
            ]))
        neg = rng.choice([
            "  0 [+2]  UInt  a\n", "  0 [+8]  Int  a\n", "  0 [+3]  Bcd  a\n", "  0 [+4]  Float  a\n",
            "  0 [+4]  UInt:16[2]  a\n",
            "  0 [+2]  bits:\n    0 [+4]  UInt  low\n",          # anonymous bits declaring fewer bits than the field has
            "  0 [+4]  bits:\n    0 [+8]  UInt  x\n",            # ... or exactly one byte's worth in a four-byte field
            "  0 [+2]  bits:\n    0 [+16]  UInt  x\n",
            "  0 [+8]  bits:\n    0 [+1]  Flag  f\n    1 [+7]  UInt  x\n",
        ])
        parts.append("struct MissingOrder:\n" + neg)
        rule = "missing-byte-order"
        k = len(parts) - 1
    head = ['[$default byte_order: "LittleEndian"]'] if (default_bo or rule not in (None, "missing-byte-order")) else []
    if not head and rule is None:
        # no default: every multi-byte field in the positives would be missing its order; keep the default
        head = ['[$default byte_order: "LittleEndian"]']
    lines = list(head)
    for i, p in enumerate(parts):
        if rule is not None and i == k:
            start = len(lines) + 1
            lines.extend(p.rstrip("\n").split("\n"))
            span = (start, len(lines))
        else:
            lines.extend(p.rstrip("\n").split("\n"))
    return {"m.emb": "\n".join(lines) + "\n"}, rule, span


def judge(files, rule, span):
    try:
        ir, _d, errors = embc.parse(files)
    except embc.CpuBudgetExceeded:
        return [("no-termination", "CPU budget exceeded")]
    except Exception as e:
        et, site = embc.crash_site(e)
        return [("crash:%s@%s" % (et, site), "compiler raised %r (rule %s)" % (e, rule))]
    if rule is None:
        if errors:
            m = errors[0][0]
            return [("realisable-module-rejected", "%s at %s" % (m.message.split("\n")[0], m.location))]
        # the back end must accept what the front end accepted
        try:
            hdr, herr = embc.header(ir)
            if herr:
                return [("realisable-module-rejected-by-back-end", herr[0][0].message.split("\n")[0])]
        except Exception as e:
            et, site = embc.crash_site(e)
            return [("backend-crash:%s@%s" % (et, site), repr(e))]
        return []
    if not errors:
        # the C++ back end checks its own attributes: a rejection there counts
        try:
            _hdr, herr = embc.header(ir)
        except Exception as e:
            et, site = embc.crash_site(e)
            return [("backend-crash:%s@%s" % (et, site), "back end raised %r (rule %s)" % (e, rule))]
        if herr:
            return []
        return [("rule-violation-accepted:" + rule, "module breaking rule %r is accepted:\n%s" % (
            rule, "\n".join(files["m.emb"].split("\n")[span[0] - 1:span[1]])))]
    # C14 demands rejection with an error; where the error points is C13/C16's subject
    return []


def batch(arg):
    common.repo_on_path()
    out = {"viol": [], "n": 0, "pos": 0, "neg": 0, "rules": {}, "samples": [], "distinct": []}
    for i in range(arg["start"], arg["start"] + arg["count"]):
        rng = common.case_rng(arg["seed"], "C14", i)
        files, rule, span = build(rng)
        out["n"] += 1
        out["neg" if rule else "pos"] += 1
        if rule:
            out["rules"][rule] = out["rules"].get(rule, 0) + 1
        out["distinct"].append(hash((rule, hash(files["m.emb"]) & 0x3ff)))
        for mech, what in judge(files, rule, span):
            out["viol"].append({"mech": mech, "what": what, "files": files, "rule": rule, "span": span, "case": i})
        if not out["samples"] and rule:
            out["samples"].append({"case": i, "rule": rule, "snippet": "\n".join(files["m.emb"].split("\n")[span[0] - 1:span[1]])})
    out["viol"] = common.cap_by_mech(out["viol"])
    return out


def run(ctx):
    quick = ctx.tier == "quick"
    n = 3200 if quick else 50000
    per = 100 if quick else 1000
    args = [{"seed": ctx.seed, "start": s, "count": min(per, n - s)} for s in range(0, n, per)]
    res = common.run_cases("c14", "batch", args, timeout=2400)
    rules = {}
    for a, (st, val) in zip(args, res):
        if st != "ok" or not val.get("ok"):
            ctx.inconclusive_cases += a["count"]
            ctx.evaluations += a["count"]
            if st == "ok":
                print("worker error:", val.get("err"), val.get("tb", "")[-800:])
            continue
        v = val["val"]
        ctx.evaluations += v["n"]
        ctx.count("realisable_modules", v["pos"])
        ctx.count("violating_modules", v["neg"])
        for k, c in v["rules"].items():
            rules[k] = rules.get(k, 0) + c
        for h in v["distinct"]:
            ctx.distinct.add(h)
        for s in v["samples"]:
            ctx.sample(s, limit=5)
        for x in v["viol"]:
            ctx.violation("C14:" + x["mech"], x["what"], x)
    ctx.extra["rules_exercised"] = rules
    ctx.count("distinct_rules", len(rules))
    ctx.rule = ("case = module of 1-4 realisable snippets sitting on the documented boundaries; 70% additionally contain exactly one "
                "snippet one step beyond a boundary (catalogue of ~50 rules incl. reserved words sampled from the reserved_words "
                "file); distinct_nontrivial = distinct (rule, text hash class)")
    ctx.assumptions = ["the catalogue is my reading of doc/language-reference.md, compiler/front_end/prelude.emb and the attribute tables"]
    return ctx.finish(min_evals=n // 2, require=("realisable_modules", "violating_modules", "distinct_rules"))


def replay(path):
    common.repo_on_path()
    with open(path) as f:
        rp = json.load(f)["replay"]
    v = judge(rp["files"], rp["rule"], rp["span"])
    for mech, what in v:
        print("VIOLATION property=C14 replay=%s\n  %s: %s" % (path, mech, what))
    return 1 if v else 0
