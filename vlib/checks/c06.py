"""C06 — text format output reads back to the same structure.

(a) round-trip monitor inside the driver (real generated code, ASan+UBSan):
    s = WriteToString(v, o); v2 over a zeroed buffer of the same size;
    UpdateFromText(v2, s) must succeed, v2 must be Ok and re-emit exactly s,
    for each of the 18 re-readable option sets (base 2/10/16 x digit grouping x
    {multi-line, multi-line+comments, single-line}).
(b) offline checker on the emitted text: top-level field order vs the model's
    dependency relation; fields marked Skip absent, unmarked / Emit present.
(c) partial-output + arbitrary-text feeding on non-Ok views (feeds C04).
"""

import json
import re

from vlib import common, cppdrv, cppsuite, refsem

LEVEL = "exploration"


def cppdrv_first_error(err):
    import re as _re
    m = _re.search(r"error: (.*)", err or "")
    return _re.sub(r"'[^']*'", "'X'", m.group(1))[:100] if m else "unknown"


def top_level_names(text):
    """Names of the top-level fields of a single-line, comment-free text."""
    names = []
    depth = 0
    i = 0
    tok = ""
    for ch in text:
        if ch == "{":
            depth += 1
            tok = ""
        elif ch == "}":
            depth -= 1
            tok = ""
        elif ch == ":" and depth == 1:
            t = tok.strip()
            if re.match(r"^[a-z_][a-z_0-9]*$", t):
                names.append(t)
            tok = ""
        elif ch == ",":
            tok = ""
        else:
            tok += ch
    return names


def refs_of(e, out):
    if e is None:
        return out
    if e[0] == "ref":
        out.add(e[1][0])
    elif e[0] == "op":
        for a in e[2]:
            refs_of(a, out)
    return out


def field_deps(s, f):
    deps = set()
    anon = None
    for g in s.fields:
        if g.kind == "anon" and f in g.anon_bits.fields:
            anon = g
    for e in (f.start, f.size, f.cond, f.expr):
        refs_of(e, deps)
    if anon is not None:
        for e in (anon.start, anon.size, anon.cond):
            refs_of(e, deps)
    t = f.type
    while t is not None:
        for a in t.args:
            refs_of(a, deps)
        if t.kind == "array":
            refs_of(t.count, deps)
            t = t.elem
        else:
            break
    out = set()
    for d in deps:
        g = s.field(d)
        if g is not None and g is not f:
            out.add(g.name)
    return out


def hostile_literal(rng):
    """Integer literal at or one step beyond a 2^k boundary, in any accepted spelling."""
    k = rng.choice([3, 4, 7, 8, 15, 16, 23, 24, 31, 32, 47, 48, 63, 64])
    v = rng.choice([2 ** k, 2 ** k - 1, 2 ** k + 1, -(2 ** k), -(2 ** k) - 1, -(2 ** k) + 1, 10 ** rng.randint(1, 25) - rng.randint(0, 1),
                    -(10 ** rng.randint(1, 25)), 0, -1, rng.randint(-2 ** 65, 2 ** 65)])
    form = rng.choice(["dec", "dec", "dec", "hex", "bin", "grouped", "name"])
    sign, a = ("-" if v < 0 else ""), abs(v)
    if form == "hex":
        return "%s0x%x" % (sign, a)
    if form == "bin":
        return "%s0b%s" % (sign, bin(a)[2:])
    if form == "grouped":
        d = str(a)
        return sign + "_".join(reversed([d[max(0, i - 3):i] for i in range(len(d), 0, -3)]))
    if form == "name":
        return rng.choice(["true", "false", "NOPE", "-", "0x", "1e5", "+1", "00017"])
    return "%s%d" % (sign, a)


def hostile_text(rng, s, depth=0):
    """Text addressed at one leaf of structure `s` (by the spec, not by the generated code) carrying a boundary
    literal: every integer, enum, array-index and nested path goes through the runtime's number parser."""
    fs = s.all_named_fields()
    if not fs or depth > 3:
        return "{ }"
    f = rng.choice(fs)
    t = f.type
    if f.kind == "virtual" or t is None:
        return "{ %s: %s }" % (f.name, hostile_literal(rng))
    if t.kind == "struct":
        return "{ %s: %s }" % (f.name, hostile_text(rng, t.ref, depth + 1))
    if t.kind == "array":
        e = t.elem
        inner = hostile_text(rng, e.ref, depth + 1) if e.kind == "struct" else hostile_literal(rng)
        if rng.random() < 0.5:
            return "{ %s: { [%s]: %s } }" % (f.name, rng.choice(["0", "1", hostile_literal(rng)]), inner)
        return "{ %s: { %s } }" % (f.name, ", ".join([inner] + [hostile_literal(rng) for _ in range(rng.randint(0, 3))]
                                                     if e.kind != "struct" else [inner]))
    if t.kind == "enum" and rng.random() < 0.3:
        return "{ %s: %s }" % (f.name, rng.choice(t.ref.values)[0])
    return "{ %s: %s }" % (f.name, hostile_literal(rng))


def module_case(arg):
    common.repo_on_path()
    out = {"idx": arg["idx"], "viol": [], "cases": 0, "round_trips": 0, "hostile_texts": 0, "texts_order_checked": 0, "partial_runs": 0,
           "aborts": [], "distinct": [], "built": False, "sample": None, "rejected": 0, "skip_checked": 0, "emit_checked": 0,
           "not_ok_skipped": 0}
    profile = dict(arg.get("profile") or {})
    profile["text"] = True
    if arg["idx"] % 3 == 1:
        profile["union_bias"] = True
    gm = cppsuite.gen_module(arg["seed"], "textmod", arg["idx"], profile)
    out["rejected"] = len(gm["rejected"])
    if gm["m"] is None:
        return out
    m = gm["m"]
    flavour = "asan-portable" if arg["idx"] % 4 == 3 else "asan"
    with common.Scratch("c06") as d:
        built = cppsuite.Built(d, gm)
        b = built.build("text", flavour)
        if b is None:
            # a header + driver that does not compile is C07's observation; here the module is a counted skip
            out["compile_failed"] = cppdrv_first_error(built.build_errors[("text", flavour)])
            return out
        out["built"] = True
        tops = [s for s in m.structs if s.kind == "struct"]
        rng = common.case_rng(arg["seed"], "C06cases", arg["idx"])
        lines, meta = [], {}
        ci = 0
        nopt = len(cppdrv.TEXT_OPTION_SETS)
        for _rep in range(arg["text_cases"]):
            si = rng.randrange(len(tops))
            s = tops[si]
            params = cppsuite.rand_params(rng, s)
            pd = cppsuite.pdict(s, params)
            data = None
            for _try in range(6):
                cand = bytearray(refsem.encode_random(m, s.name, pd, rng, rng.choice([16, 32, 48, 72])))
                v = refsem.view(m, s.name, pd, cand)
                sz = v.size()
                if refsem.known(sz) and 0 <= sz <= len(cand):
                    cand = cand[:sz] if rng.random() < 0.7 else cand
                    if refsem.view(m, s.name, pd, bytearray(cand)).ok() is True:
                        data = bytes(cand)
                        break
            pl = " ".join(str(x) for x in params)
            # hostile text input on Ok and non-Ok views alike: boundary literals aimed at real leaves (sanitizer oracle)
            for _h in range(2):
                hd = data if (data is not None and rng.random() < 0.7) else cppsuite.rand_buffer(rng, m, s, params)
                cid = "t%d" % ci
                ci += 1
                lines.append("%s ptext %d %d %s %s %d %s" % (cid, si, len(params), pl, bytes(hd).hex() or "-", rng.randrange(nopt),
                                                           hostile_text(rng, s).encode().hex()))
                meta[cid] = ("ptext", si, params, bytes(hd), "hostile")
            if data is None:
                out["not_ok_skipped"] += 1
                # still exercise partial output and text feeding on a non-Ok view
                data = cppsuite.rand_buffer(rng, m, s, params)
                junk = rng.choice(["{", "{ x: 1 }", "{ %s: 999999999999999999999 }" % (s.all_named_fields()[0].name if s.all_named_fields() else "x"),
                                   "{ [999999]: 1 }", "{" * 40, "", "{ a: { b: { c: 0x", "{ %s: -0b }" % "q"])
                cid = "t%d" % ci
                ci += 1
                lines.append("%s ptext %d %d %s %s %d %s" % (cid, si, len(params), pl, data.hex() or "-", rng.randrange(nopt),
                                                           junk.encode().hex() or "-"))
                meta[cid] = ("ptext", si, params, data, None)
                continue
            for k in ([2, rng.randrange(nopt), rng.randrange(nopt)] if not arg.get("all_options") else range(nopt)):
                cid = "t%d" % ci
                ci += 1
                lines.append("%s text %d %d %s %s %d -" % (cid, si, len(params), pl, data.hex() or "-", k))
                meta[cid] = ("text", si, params, data, k)
        results, failures = cppsuite.run_all(b, lines)
        for f in failures:
            kind, detail = cppdrv.summarize_report(f)
            out["aborts"].append({"kind": kind, "detail": detail, "case": f["case"], "report": f["report"][-1200:],
                                  "coords": gm["coords"], "meta": repr(meta.get(f["case"]))[:300]})
        for cid, (opn, si, params, data, k) in meta.items():
            r = results.get(cid)
            if r is None or "#partial" in r:
                continue
            s = tops[si]
            out["cases"] += 1
            if opn == "ptext":
                out["partial_runs"] += 1
                out["hostile_texts"] += 1 if k == "hostile" else 0
                continue
            if r.get("ok") != "1":
                continue  # Ok() disagreement: C01's business
            out["round_trips"] += 1
            o = cppdrv.TEXT_OPTION_SETS[k]
            text = r.get("text", "").replace("\\n", "\n").replace("\\\\", "\\")
            problems = []
            if r.get("read") != "1":
                problems.append(("update-from-text-failed", "1", r.get("read")))
            elif r.get("v2ok") != "1":
                problems.append(("reread-view-not-ok", "1", r.get("v2ok")))
            elif r.get("same") != "1":
                problems.append(("reemitted-text-differs", text[:200], r.get("text2", "")[:200]))
            out["distinct"].append(hash((arg["idx"], si, k, hash(text) & 0xff)))
            if not o["multiline"] and not o["comments"]:
                # offline order / presence checker
                names = top_level_names(text)
                pos = {n: i for i, n in enumerate(names)}
                v = refsem.view(m, s.name, cppsuite.pdict(s, params), bytearray(data))
                out["texts_order_checked"] += 1
                for f in s.all_named_fields():
                    if f.kind == "virtual":
                        continue
                    h = v.has(f)
                    if f.text_output == "Skip":
                        out["skip_checked"] += 1
                        if f.name in pos:
                            problems.append(("skip-field-present", "absent", f.name))
                    elif h is True:
                        if f.text_output == "Emit":
                            out["emit_checked"] += 1
                        if f.name not in pos:
                            problems.append(("field-missing", f.name, "absent"))
                    if f.name in pos:
                        for dep in field_deps(s, f):
                            if dep in pos and pos[dep] > pos[f.name]:
                                problems.append(("dependency-order", "%s before %s" % (dep, f.name), "after"))
            if problems:
                if cppsuite.signed_enum_taint(m, s, params, data):
                    problems = [("signed-enum",) + problems[0][1:]]
                out["viol"].append({"mech": ("text:" + problems[0][0]) if problems[0][0] != "signed-enum" else "signed-enum-narrow-field-zero-extended", "what": "struct %s params %r bytes %s options %r: %s\ntext: %s" % (
                    s.name, params, data.hex(), o, "; ".join("%s expected %s got %s" % p for p in problems[:4]), text[:600]),
                    "coords": gm["coords"], "struct": s.name, "params": params, "data": data.hex(), "option": k, "text": gm["text"]})
            elif out["sample"] is None and len(text) > 30 and o["multiline"]:
                out["sample"] = {"struct": s.name, "options": o, "bytes": data.hex(), "text": text[:500]}
    out["viol"] = common.cap_by_mech(out["viol"])
    return out


def run(ctx):
    quick = ctx.tier == "quick"
    nmod = 20 if quick else 160
    common.repo_on_path()
    with common.Scratch("c06canary") as d:
        ok, detail = cppdrv.liveness_canary(d)
    ctx.extra["sanitizer_canary"] = detail
    if not ok:
        raise common.Inconclusive("sanitizer liveness canary failed: " + detail)
    args = [{"seed": ctx.seed, "idx": i, "text_cases": 60 if quick else 120, "all_options": not quick} for i in range(nmod)]
    res = common.run_cases("c06", "module_case", args, timeout=1800)
    for a, (st, val) in zip(args, res):
        if st != "ok" or not val.get("ok"):
            ctx.inconclusive_cases += 50
            ctx.evaluations += 50
            ctx.count("module_failed_" + st)
            if st == "ok":
                print("worker error:", val.get("err"), val.get("tb", "")[-800:])
            continue
        v = val["val"]
        ctx.count("modules")
        ctx.count("modules_built", 1 if v["built"] else 0)
        if v.get("compile_failed"):
            ctx.count("modules_skipped_driver_does_not_compile")
            ctx.extra.setdefault("compile_failures", {}).setdefault(v["compile_failed"], 0)
            ctx.extra["compile_failures"][v["compile_failed"]] += 1
        ctx.evaluations += v["cases"]
        for k in ("round_trips", "hostile_texts", "texts_order_checked", "partial_runs", "skip_checked", "emit_checked", "not_ok_skipped"):
            ctx.count(k, v[k])
        for h in v["distinct"]:
            ctx.distinct.add(h)
        if v["sample"]:
            ctx.sample(v["sample"], limit=3)
        for ab in v["aborts"]:
            ctx.count("driver_aborts")
            ctx.violation("C06:abort:%s:%s" % (ab["kind"], ab["detail"]), "driver aborted in case %s: %s" % (
                ab.get("case"), ab.get("report", "")[-600:]), ab)
        for x in v["viol"]:
            ctx.violation("C06:" + x["mech"], x["what"], x)
    ctx.extra["option_sets"] = cppdrv.TEXT_OPTION_SETS
    ctx.rule = ("case = (module with [text_output] marks, structure, parameters, Ok buffer from the encoder, option set) -> "
                "write / read into zeros / re-write; single-line comment-free outputs are additionally parsed for field order and "
                "presence; distinct_nontrivial = distinct (module, structure, option set, text hash)")
    ctx.assumptions = ["text equality of the re-emitted output stands for 'emitted fields read back equal' (integers exact, "
                       "enums by first name or number, floats by printed digits)",
                       "single-line output with comments is not in the documented re-readable list and is not tested"]
    return ctx.finish(min_evals=nmod * 20, require=("modules_built", "round_trips", "texts_order_checked", "skip_checked",
                                                    "emit_checked"))


def replay(path):
    with open(path) as f:
        rp = json.load(f)["replay"]
    c = rp["coords"]
    r = module_case({"seed": c["seed"], "idx": c["idx"], "text_cases": 60})
    for x in r["viol"][:5]:
        print("VIOLATION property=C06 replay=%s\n  %s: %s" % (path, x["mech"], x["what"][:700]))
    return 1 if r["viol"] else 0
