"""C09 — the shipped parser tables are the parser of the documented grammar.

(a) structural invariant over the two live Parser objects (the one embossc
    loads via parser.module_parser()/_load_expression_parser(), and a freshly
    generated one): lock-step product walk from state 0 building the state
    bijection on the fly; compares action kind, shift target, reduce
    production, error code, goto target and default_errors for EVERY reachable
    pair and EVERY symbol (finite automata: exhaustive).
(b) differential execution monitor: both parsers on token sequences (corpus,
    error examples, generated sentences, token mutants); results compared field
    by field; distinct (state, symbol) table entries exercised are counted.
(c) production-set equality: module_ir.PRODUCTIONS == cached productions ==
    doc/grammar.md listing; token table of the doc vs the tokenizer's tables.
"""

import json
import os

from vlib import common, docgrammar, syngen, textgen

LEVEL = "exploration"


def _act_sig(a):
    from compiler.front_end import lr1
    if isinstance(a, lr1.Shift):
        return ("S", a.state)
    if isinstance(a, lr1.Reduce):
        return ("R", (str(a.rule.lhs), tuple(a.rule.rhs)))
    if isinstance(a, lr1.Accept):
        return ("A", None)
    if isinstance(a, lr1.Error):
        return ("E", a.code)
    return ("?", repr(a))


def product_walk(pa, pb, limit_viol=20):
    """Returns (pairs, entries, violations[list of (mech, what)])."""
    viol = []
    fwd = {0: 0}
    back = {0: 0}
    work = [0]
    entries = 0
    # the shipped tables carry no terminal/nonterminal sets (None): they are
    # implied by the keys of action/goto, which the walk compares entry by entry
    if pa.terminals is not None and pb.terminals is not None and set(pa.terminals) != set(pb.terminals):
        viol.append(("terminals-differ", "terminal sets differ: %r" % (
            sorted(map(str, set(pa.terminals) ^ set(pb.terminals)))[:10],)))
    if pa.nonterminals is not None and pb.nonterminals is not None and set(pa.nonterminals) != set(pb.nonterminals):
        viol.append(("nonterminals-differ", "nonterminal sets differ: %r" % (
            sorted(map(str, set(pa.nonterminals) ^ set(pb.nonterminals)))[:10],)))

    def pair(sa, sb, why):
        if sa in fwd:
            if fwd[sa] != sb:
                viol.append(("not-bijective", "state %d of A maps to both %d and %d of B (%s)" % (sa, fwd[sa], sb, why)))
            return
        if sb in back:
            viol.append(("not-bijective", "state %d of B reached from both %d and %d of A (%s)" % (sb, back[sb], sa, why)))
            return
        fwd[sa] = sb
        back[sb] = sa
        work.append(sa)

    while work and len(viol) < limit_viol:
        sa = work.pop()
        sb = fwd[sa]
        ra = pa.action.get(sa, {})
        rb = pb.action.get(sb, {})
        for sym in set(ra) | set(rb):
            entries += 1
            xa = _act_sig(ra[sym]) if sym in ra else ("E", pa.default_errors.get(sa))
            xb = _act_sig(rb[sym]) if sym in rb else ("E", pb.default_errors.get(sb))
            if xa[0] != xb[0]:
                viol.append(("action-kind", "state A%d/B%d on %s: %r vs %r" % (sa, sb, sym, xa, xb)))
                continue
            if xa[0] == "S":
                pair(xa[1], xb[1], "shift %s from A%d" % (sym, sa))
            elif xa != xb:
                viol.append(("action-" + {"R": "reduce", "E": "error", "A": "accept"}.get(xa[0], "x"),
                             "state A%d/B%d on %s: %r vs %r" % (sa, sb, sym, xa, xb)))
            # expected-token sets are derived from the keys with non-Error actions
            if (sym in ra and xa[0] != "E") != (sym in rb and xb[0] != "E"):
                viol.append(("expected-set", "state A%d/B%d: %s expected by one parser only" % (sa, sb, sym)))
        da, db = pa.default_errors.get(sa), pb.default_errors.get(sb)
        entries += 1
        if da != db:
            viol.append(("default-error", "state A%d/B%d default error %r vs %r" % (sa, sb, da, db)))
        ga = pa.goto.get(sa, {})
        gb = pb.goto.get(sb, {})
        for nt in set(ga) | set(gb):
            entries += 1
            if (nt in ga) != (nt in gb):
                # a goto entry that no reduction can ever use is harmless only if
                # unreachable; report, since tables are meant to be identical
                viol.append(("goto-missing", "state A%d/B%d goto on %s present in one parser only" % (sa, sb, nt)))
                continue
            pair(ga[nt], gb[nt], "goto %s from A%d" % (nt, sa))
    return len(fwd), entries, viol


class _Recorder(dict):
    """dict proxy counting distinct (state, symbol) lookups."""


def _compare_results(ra, rb):
    if (ra.error is None) != (rb.error is None):
        return ("accept-differs", "cached %s, fresh %s" % ("accepts" if ra.error is None else "rejects",
                                                              "accepts" if rb.error is None else "rejects"))
    if ra.error is None:
        if ra.parse_tree != rb.parse_tree:
            return ("tree-differs", "parse trees differ")
        return None
    ea, eb = ra.error, rb.error
    if ea.index != eb.index:
        return ("error-index-differs", "error index %d vs %d" % (ea.index, eb.index))
    if ea.code != eb.code:
        return ("error-code-differs", "error message %r vs %r at index %d" % (ea.code, eb.code, ea.index))
    if ea.token != eb.token:
        return ("error-token-differs", "error token %r vs %r" % (ea.token, eb.token))
    if set(ea.expected_tokens) != set(eb.expected_tokens):
        return ("expected-differs", "expected sets differ: %r" % (sorted(set(ea.expected_tokens) ^ set(eb.expected_tokens)),))
    return None


_P = {}


def _parsers():
    if not _P:
        common.repo_on_path()
        from compiler.front_end import make_parser, parser
        _P["cached"] = parser.module_parser()
        _P["fresh"] = make_parser.build_module_parser()
        _P["xcached"] = parser._load_expression_parser().parser
        _P["xfresh"] = make_parser.build_expression_parser()
        _P["mismatch"] = parser.module_parser_cache_mismatch()
    return _P


def case_structure(_arg):
    P = _parsers()
    out = {"viol": []}
    n1, e1, v1 = product_walk(P["cached"], P["fresh"])
    n2, e2, v2 = product_walk(P["xcached"], P["xfresh"])
    out["module_pairs"] = n1
    out["module_entries"] = e1
    out["expr_pairs"] = n2
    out["expr_entries"] = e2
    out["module_states_cached"] = len(P["cached"].action) and max(
        max(P["cached"].action), max(P["cached"].goto or {0: 0})) + 1
    out["cache_mismatch"] = [sorted(map(str, s)) for s in P["mismatch"]]
    for m, w in v1:
        out["viol"].append({"mech": "module:" + m, "what": w})
    for m, w in v2:
        out["viol"].append({"mech": "expr:" + m, "what": w})
    # (c) production sets
    from compiler.front_end import module_ir, tokenizer, lr1
    src = set((str(p.lhs), tuple(p.rhs)) for p in module_ir.PRODUCTIONS)
    cached = set((str(p.lhs), tuple(p.rhs)) for p in P["cached"].productions) - {(lr1.START_PRIME, (module_ir.START_SYMBOL,))}
    doc = set()
    for block in docgrammar.all_production_blocks():
        doc.update(block)
    out["productions"] = {"source": len(src), "cached": len(cached), "doc": len(doc)}
    if src != cached:
        out["viol"].append({"mech": "productions-cached-vs-source",
                            "what": "cached-only %r source-only %r" % (sorted(cached - src)[:4], sorted(src - cached)[:4])})
    if src != doc:
        out["viol"].append({"mech": "productions-doc-vs-source",
                            "what": "doc-only %r source-only %r" % (sorted(doc - src)[:4], sorted(src - doc)[:4])})
    # token table of the doc vs tokenizer tables
    table = docgrammar.token_table()
    import re
    lits = [(re.escape(l), '"%s"' % l) for l in tokenizer.LITERAL_TOKEN_PATTERNS]
    regs = [(t.regex.pattern, t.symbol) for t in tokenizer.REGEX_TOKEN_PATTERNS]
    mine = [(re.compile(p).pattern, s) for p, s in table]
    theirs = [(re.compile(p).pattern, s) for p, s in lits + regs]
    norm = lambda rows: [(p.replace("\\", ""), s) if s and s.startswith('"') else (p, s) for p, s in rows]
    if norm(mine) != norm(theirs):
        k = 0
        a, b = norm(mine), norm(theirs)
        while k < min(len(a), len(b)) and a[k] == b[k]:
            k += 1
        out["viol"].append({"mech": "token-table-doc-vs-source",
                            "what": "row %d: doc %r source %r" % (k, a[k:k + 1], b[k:k + 1])})
    out["token_rows"] = len(table)
    return out


def _sequences(rng, i, corpus, examples, gen, terms):
    """Token sequences (lists of Token) for case i."""
    from compiler.front_end import tokenizer
    from compiler.util import parser_types
    r = rng.random()
    if r < 0.15:
        _name, text = corpus[i % len(corpus)]
        toks, err = tokenizer.tokenize(text, "c.emb")
        if err:
            return "corpus", None
        return "corpus", toks
    if r < 0.3 and examples:
        ex = examples[i % len(examples)]
        toks = [t for t in ex[0]]
        # replace ANY_TOKEN by a concrete terminal
        from compiler.front_end import lr1
        toks = [parser_types.Token(rng.choice(terms), "x", None) if t is lr1.ANY_TOKEN else t for t in toks]
        return "error_example", toks
    if r < 0.5:
        _name, text = corpus[rng.randrange(len(corpus))]
        text = textgen.mutate_text(rng, text)
        toks, err = tokenizer.tokenize(text, "m.emb")
        if err:
            return "mutant_text", None
        return "mutant_text", toks
    gen.star_p = rng.choice([0.3, 0.5, 0.65])
    syms = gen.derive(rng, rng.choice([8, 10, 12, 16, 20, 26]), max_tokens=200)
    kind = "sentence"
    if rng.random() < 0.6:
        kind = "sentence_mutant"
        for _k in range(rng.randint(1, 2)):
            op = rng.random()
            if syms and op < 0.3:
                del syms[rng.randrange(len(syms))]
            elif op < 0.65:
                syms.insert(rng.randint(0, len(syms)), rng.choice(terms))
            elif syms and op < 0.85:
                syms[rng.randrange(len(syms))] = rng.choice(terms)
            elif syms:
                syms = syms[:rng.randrange(len(syms))]
    return kind, [parser_types.Token(s, s, None) for s in syms]


def case_exec(arg):
    P = _parsers()
    from compiler.front_end import make_parser, module_ir
    from compiler.util import resources
    corpus = textgen.corpus()
    examples = make_parser.parse_error_examples(resources.load("compiler.front_end", "error_examples"))
    prods = [(str(p.lhs), tuple(p.rhs)) for p in module_ir.PRODUCTIONS]
    gen = syngen.SentenceGen(module_ir.START_SYMBOL, prods)
    terms = sorted(t for t in P["fresh"].terminals if t != "$")
    out = {"viol": [], "n": 0, "kinds": {}, "accepted": 0, "rejected": 0, "codes": {}}
    touched = set()
    for i in range(arg["start"], arg["start"] + arg["count"]):
        rng = common.case_rng(arg["seed"], "C09", i)
        kind, toks = _sequences(rng, i, corpus, examples, gen, terms)
        if toks is None:
            out["kinds"][kind + "_untokenizable"] = out["kinds"].get(kind + "_untokenizable", 0) + 1
            continue
        out["kinds"][kind] = out["kinds"].get(kind, 0) + 1
        out["n"] += 1
        ra = P["cached"].parse(toks)
        rb = P["fresh"].parse(toks)
        if ra.error is None:
            out["accepted"] += 1
        else:
            out["rejected"] += 1
            c = str(ra.error.code)[:60]
            out["codes"][c] = out["codes"].get(c, 0) + 1
            touched.add((ra.error.state, str(ra.error.token.symbol)))
        d = _compare_results(ra, rb)
        if d:
            out["viol"].append({"mech": "exec:" + d[0], "what": d[1], "case": i, "kind": kind,
                                "symbols": [str(t.symbol) for t in toks][:400]})
    out["error_states"] = len(touched)
    return out


def run(ctx):
    quick = ctx.tier == "quick"
    n = 1600 if quick else 40000
    per = 200 if quick else 2500
    import threading
    sres = []
    t = threading.Thread(target=lambda: sres.extend(common.run_cases("c09", "case_structure", [{}], timeout=1200, jobs=1)))
    t.start()
    args = [{"seed": ctx.seed, "start": s, "count": min(per, n - s)} for s in range(0, n, per)]
    res = common.run_cases("c09", "case_exec", args, timeout=1800, jobs=min(len(args), common.NCPU - 1))
    t.join()
    st, val = sres[0]
    if st != "ok" or not val.get("ok"):
        print("structure walk failed:", st, val if st == "ok" else "")
        raise common.Inconclusive("structure walk did not complete (%s)" % st)
    v = val["val"]
    ctx.evaluations += 1
    ctx.count("walk_module_state_pairs", v["module_pairs"])
    ctx.count("walk_module_entries_compared", v["module_entries"])
    ctx.count("walk_expr_state_pairs", v["expr_pairs"])
    ctx.count("walk_expr_entries_compared", v["expr_entries"])
    ctx.extra["productions"] = v["productions"]
    ctx.extra["token_table_rows"] = v["token_rows"]
    ctx.extra["cache_mismatch_at_load"] = v["cache_mismatch"]
    ctx.extra["exhaustive"] = True
    ctx.extra["states"] = v["module_pairs"] + v["expr_pairs"]
    ctx.extra["transitions"] = v["module_entries"] + v["expr_entries"]
    ctx.extra["explanation_exhaustive"] = ("the product walk visits every state pair reachable from (0,0) and compares every "
                                          "table entry; the sampled executions (b) are not exhaustive")
    ctx.nontrivial("walk-module")
    ctx.nontrivial("walk-expression")
    for x in v["viol"]:
        ctx.violation("C09:" + x["mech"], x["what"], x)
    codes = {}
    for a, (st, val) in zip(args, res):
        if st != "ok" or not val.get("ok"):
            ctx.inconclusive_cases += a["count"]
            ctx.evaluations += a["count"]
            if st == "ok":
                print("worker error:", val.get("err"), val.get("tb", "")[-600:])
            continue
        w = val["val"]
        ctx.evaluations += w["n"]
        ctx.count("exec_sequences", w["n"])
        ctx.count("exec_accepted", w["accepted"])
        ctx.count("exec_rejected", w["rejected"])
        for k, c in w["kinds"].items():
            ctx.count("kind_" + k, c)
        for k, c in w["codes"].items():
            codes[k] = codes.get(k, 0) + c
        for x in w["viol"]:
            ctx.violation("C09:" + x["mech"], x["what"], x)
    for k in codes:
        ctx.nontrivial("code:" + k)
    ctx.extra["distinct_error_messages_exercised"] = len(codes)
    ctx.sample({"error_messages_seen": sorted(codes.items(), key=lambda kv: -kv[1])[:8]})
    ctx.sample({"walk": {k: v[k] for k in ("module_pairs", "module_entries", "expr_pairs", "expr_entries")}})
    ctx.rule = ("(a) every reachable state pair of (loaded parser, freshly generated parser) x every symbol, for the module "
                "and expression parsers; (b) token sequences from corpus, error examples, grammar-derived sentences, token and "
                "text mutants run through both parsers; distinct_nontrivial = the two exhaustive walks + distinct error "
                "messages exercised by (b)")
    ctx.assumptions = ["lr1.Parser.parse is the only interpreter of the tables (its behaviour is a function of action, goto, "
                       "default_errors)", "doc/grammar.md listing parsed by vlib/docgrammar.py"]
    return ctx.finish(min_evals=n // 2, require=("walk_module_state_pairs", "walk_expr_state_pairs", "exec_accepted",
                                                 "exec_rejected"))


def replay(path):
    P = _parsers()
    from compiler.util import parser_types
    with open(path) as f:
        rp = json.load(f)["replay"]
    if "symbols" in rp:
        toks = [parser_types.Token(s, s, None) for s in rp["symbols"]]
        d = _compare_results(P["cached"].parse(toks), P["fresh"].parse(toks))
        if d:
            print("VIOLATION property=C09 replay=%s\n  %s: %s" % (path, d[0], d[1]))
            return 1
        print("no violation on replay (token texts/locations are not stored; symbols only)")
        return 0
    v = case_structure({})
    for x in v["viol"]:
        print("VIOLATION property=C09 replay=%s\n  %s: %s" % (path, x["mech"], x["what"]))
    return 1 if v["viol"] else 0
