"""C12 — names resolve to the one lexically visible definition, or the module
is rejected.

Reference-model monitor: the generator builds a random scope tree (main module,
optional imported module, module-level types, nested subtypes, parameters,
fields with abbreviations, enum values) and plants references whose intended
target is computed by the model's own resolver of the stated rules.  After the
real front end ran up to (not including) type annotation, every planted
reference's Reference.canonical_name (matched by source position) is compared
with the intended target, every definition's canonical name is checked to lead
back to it through the real ir_util.find_object, and one injected fault per
faulty module (missing, duplicate in one scope, visible from two scopes,
abbreviation used through a member path or from a sibling structure) must give
the matching error class and nothing else.
"""

import json

from vlib import common, embc

LEVEL = "exploration"
PRELUDE = ["UInt", "Int", "Flag", "Bcd", "Float"]


class Sc(object):
    """Model scope: a module or a type."""

    def __init__(self, name, kind, parent, file):
        self.name, self.kind, self.parent, self.file = name, kind, parent, file
        self.types = {}  # name -> Sc (SEARCHABLE)
        self.fields = []  # [(name, abbrev, typescope or None)]
        self.params = []
        self.values = []
        self.lines = []

    def path(self):
        p = []
        s = self
        while s is not None and s.kind != "module":
            p.append(s.name)
            s = s.parent
        return list(reversed(p))


def visible_types(scope, name):
    """All type definitions named `name` visible from `scope` by the stated
    rules: own subtypes, enclosing types' subtypes, module level, prelude."""
    out = []
    s = scope
    while s is not None:
        if name in s.types:
            out.append(s.types[name])
        s = s.parent
    if name in PRELUDE:
        out.append("prelude:" + name)
    return out


CAMEL = ["Alpha", "Beta", "Gamma", "Delta", "Omega", "Kappa", "Sigma", "Theta", "Zeta", "Lambda"]
SNAKE = ["aa", "bb", "cc", "dd", "ee", "ff", "gg", "hh", "kk", "mm", "nn", "pp"]
SHOUT = ["AA", "BB", "CC", "DD"]


def build(rng):
    """Returns dict(files, planted=[(line, col, intended canonical (file, path) or None)], fault=None or (class, name))."""
    files = {}
    planted = []
    fault = [None]
    have_lib = rng.random() < 0.5
    lib = Sc("", "module", None, "lib.emb")
    main = Sc("", "module", None, "m.emb")

    def new_type(parent, kind, pool):
        for _ in range(20):
            n = rng.choice(pool) + rng.choice(["", "", "X", "Two"])
            if n not in parent.types:
                break
        else:
            return None
        t = Sc(n, kind, parent, parent.file)
        parent.types[n] = t
        return t

    def fill_enum(t):
        for v in rng.sample(SHOUT, rng.randint(1, 3)):
            t.values.append(v)

    # -- library module ------------------------------------------------------
    if have_lib:
        for _ in range(rng.randint(1, 3)):
            t = new_type(lib, rng.choice(["struct", "enum"]), CAMEL)
            if t is None:
                continue
            if t.kind == "enum":
                fill_enum(t)
            else:
                for fn in rng.sample(SNAKE, rng.randint(1, 3)):
                    t.fields.append((fn, None, None))
                if rng.random() < 0.4:
                    sub = new_type(t, "enum", CAMEL)
                    if sub:
                        fill_enum(sub)
    # -- main module types ------------------------------------------------------
    tops = []
    for _ in range(rng.randint(2, 5)):
        t = new_type(main, rng.choice(["struct", "struct", "enum"]), CAMEL)
        if t is None:
            continue
        tops.append(t)
        if t.kind == "enum":
            fill_enum(t)
        else:
            for _k in range(rng.randint(0, 2)):
                sub = new_type(t, rng.choice(["struct", "enum"]), CAMEL)
                if sub is None:
                    continue
                if sub.kind == "enum":
                    fill_enum(sub)
                else:
                    for fn in rng.sample(SNAKE, rng.randint(1, 2)):
                        sub.fields.append((fn, None, None))
                    if rng.random() < 0.3:
                        subsub = new_type(sub, "enum", CAMEL)
                        if subsub:
                            fill_enum(subsub)
    structs = [t for t in tops if t.kind == "struct"]
    if not structs:
        t = new_type(main, "struct", ["Holder"])
        tops.append(t)
        structs.append(t)
    # fields of main-module structs: plain fields first (so that references go backwards)
    for t in structs:
        if rng.random() < 0.3:
            t.params.append(rng.choice(["par", "qar"]))
        for fn in rng.sample(SNAKE, rng.randint(1, 3)):
            ab = None
            if rng.random() < 0.4:
                ab = fn[0] + rng.choice("xyz")
            t.fields.append((fn, ab, None))

    # -- render with planted references ----------------------------------------------
    def render_module(mod, imports):
        lines = []
        for f, alias in imports:
            lines.append('import "%s" as %s' % (f, alias))
        lines.append('[$default byte_order: "LittleEndian"]')

        def emit_type(t, ind):
            if t.kind == "enum":
                lines.append("%senum %s:" % (ind, t.name))
                for i, v in enumerate(t.values):
                    lines.append("%s  %s = %d" % (ind, v, i))
                return
            ps = "(%s)" % ", ".join("%s: UInt:8" % p for p in t.params) if t.params else ""
            lines.append("%sstruct %s%s:" % (ind, t.name, ps))
            for sub in t.types.values():
                emit_type(sub, ind + "  ")
            off = 0
            for (fn, ab, _ts) in t.fields:
                lines.append("%s  %d [+1]  UInt  %s%s" % (ind, off, fn, (" (%s)" % ab) if ab else ""))
                off += 1
            t.next_off = off
            t.body_indent = ind + "  "
            t.insert_at = len(lines)
            if not t.fields and not t.types:
                lines.append("%s  0 [+1]  UInt  filler" % ind)
                t.next_off = 1
                t.insert_at = len(lines)

        for t in mod.types.values():
            emit_type(t, "")
        return lines

    # The import alias is a SEARCHABLE module-level name spelled like a field: now and then it coincides with a
    # field, abbreviation or parameter of some structure, from inside which the bare name is then visible twice.
    alias = "lib"
    if have_lib and rng.random() < 0.4:
        alias = rng.choice(SNAKE + ["par", "qar", "ax", "by", "cz"])
    lib_lines = render_module(lib, []) if have_lib else None
    main_lines = render_module(main, [("lib.emb", alias)] if have_lib else [])

    def own_names(t):
        return set(x for f in t.fields for x in f[:2] if x) | set(t.params)

    # choose planted references; insert lines bottom-up so indices stay valid
    inserts = []  # (insert_at, text, [(col, intended)])
    all_structs = []

    def collect(s):
        for t in s.types.values():
            if t.kind == "struct":
                all_structs.append(t)
                collect(t)

    collect(main)
    want_fault = rng.random() < 0.35
    fault_done = False
    counter = [0]
    for t in all_structs:
        if not hasattr(t, "insert_at"):
            continue
        ind = t.body_indent
        rows = []
        for _ in range(rng.randint(1, 4)):
            counter[0] += 1
            k = rng.random()
            nm = "zz%d" % counter[0]
            if k < 0.35:
                # type reference by simple name
                cands_names = set()
                s = t
                while s is not None:
                    cands_names.update(s.types)
                    s = s.parent
                cands_names.update(PRELUDE[:2])
                name = rng.choice(sorted(cands_names))
                vis = visible_types(t, name)
                if len(vis) == 1:
                    tgt = vis[0]
                    intended = ("", [name]) if isinstance(tgt, str) else (tgt.file, tgt.path())
                    prefix = "%s%d [+1]  " % (ind, t.next_off)
                    rows.append((prefix + "%s  %s" % (name, nm), [(len(prefix) + 1, intended)]))
                    t.next_off += 1
                elif len(vis) > 1 and want_fault and not fault_done:
                    prefix = "%s%d [+1]  " % (ind, t.next_off)
                    rows.append((prefix + "%s  %s" % (name, nm), []))
                    fault[0] = ("Ambiguous name", name)
                    fault_done = True
            elif k < 0.5:
                # dotted type reference Outer.Inner
                outers = [x for x in main.types.values() if x.kind == "struct" and x.types]
                if outers:
                    o = rng.choice(outers)
                    if len(visible_types(t, o.name)) == 1:
                        inner = rng.choice(list(o.types.values()))
                        prefix = "%s%d [+1]  " % (ind, t.next_off)
                        text = "%s.%s" % (o.name, inner.name)
                        rows.append((prefix + "%s  %s" % (text, nm), [(len(prefix) + 1, (inner.file, inner.path()))]))
                        t.next_off += 1
            elif k < 0.62 and have_lib and lib.types:
                lt = rng.choice(list(lib.types.values()))
                prefix = "%s%d [+1]  " % (ind, t.next_off)
                if alias in own_names(t):
                    if want_fault and not fault_done:
                        rows.append((prefix + "%s.%s  %s" % (alias, lt.name, nm), []))
                        fault[0] = ("Ambiguous name", alias)
                        fault_done = True
                    continue
                rows.append((prefix + "%s.%s  %s" % (alias, lt.name, nm), [(len(prefix) + 1, (lt.file, lt.path()))]))
                t.next_off += 1
            elif k < 0.78:
                # enum value reference in an expression
                enums = []
                s = t
                while s is not None:
                    enums += [e for e in s.types.values() if e.kind == "enum" and len(visible_types(t, e.name)) == 1]
                    s = s.parent
                if enums:
                    e = rng.choice(enums)
                    v = rng.choice(e.values)
                    prefix = "%slet %s = " % (ind, nm)
                    rows.append((prefix + "%s.%s" % (e.name, v), [(len(prefix) + 1, (e.file, e.path() + [v]))]))
                elif have_lib:
                    les = [e for e in lib.types.values() if e.kind == "enum"]
                    if les and alias not in own_names(t):
                        e = rng.choice(les)
                        v = rng.choice(e.values)
                        prefix = "%slet %s = " % (ind, nm)
                        rows.append((prefix + "%s.%s.%s" % (alias, e.name, v), [(len(prefix) + 1, (e.file, e.path() + [v]))]))
            else:
                # field / abbreviation / parameter reference
                names = []
                for (fn, ab, _ts) in t.fields:
                    names.append((fn, fn))
                    if ab:
                        names.append((ab, fn))
                for p in t.params:
                    names.append((p, p))
                if names:
                    ref, target = rng.choice(names)
                    if have_lib and alias in own_names(t) and rng.random() < 0.7:
                        ref = alias  # aim at the coinciding name
                    prefix = "%slet %s = " % (ind, nm)
                    if have_lib and ref == alias:
                        # visible as a local name and as the import alias: must be rejected, not resolved by precedence
                        if want_fault and not fault_done:
                            rows.append((prefix + "%s + 1" % ref, []))
                            fault[0] = ("Ambiguous name", ref)
                            fault_done = True
                        continue
                    rows.append((prefix + "%s + 1" % ref, [(len(prefix) + 1, (t.file, t.path() + [target]))]))
        # a field of structure type and member references through it
        cands = [x for x in main.types.values() if x.kind == "struct" and x is not t and x.fields and not x.params
                 and len(visible_types(t, x.name)) == 1 and x.path()[0] != t.path()[0]]
        if cands and rng.random() < 0.6:
            st = rng.choice(cands)
            counter[0] += 1
            sub = "sub%d" % counter[0]
            prefix = "%s%d [+1]  " % (ind, t.next_off)
            rows.append((prefix + "%s  %s" % (st.name, sub), [(len(prefix) + 1, (st.file, st.path()))]))
            t.next_off += 1
            fn, ab, _ts = rng.choice(st.fields)
            counter[0] += 1
            prefix = "%slet zz%d = " % (ind, counter[0])
            rows.append((prefix + "%s.%s + 1" % (sub, fn), [(len(prefix) + 1, (t.file, t.path() + [sub])),
                                                          (len(prefix) + 1 + len(sub) + 1, (st.file, st.path() + [fn]))]))
            abbrs = [a for (_f, a, _t) in st.fields if a]
            if want_fault and not fault_done and abbrs and rng.random() < 0.5:
                counter[0] += 1
                ab2 = rng.choice(abbrs)
                rows.append(("%slet qq%d = %s.%s + 1" % (ind, counter[0], sub, ab2), []))
                fault[0] = ("No candidate", ab2)
                fault_done = True
        # alias of a dotted path, then a member reached through the alias: `let al = out.inn` / `al.leaf`; the member must
        # be looked up in the type of the LAST element of the aliased path (when the outer structure has a field of the same
        # name, a resolver looking in the wrong type binds silently to that one)
        c2 = [x for x in main.types.values() if x.kind == "struct" and x is not t and x.fields and not x.params
              and hasattr(x, "insert_at") and len(visible_types(t, x.name)) == 1 and x.path()[0] != t.path()[0]]
        if len(c2) >= 2 and rng.random() < 0.45:
            st, st2 = rng.sample(c2, 2)
            if len(visible_types(st, st2.name)) == 1:
                counter[0] += 1
                k = counter[0]
                inn, outn, al = "inn%d" % k, "out%d" % k, "al%d" % k
                pre = "%s%d [+1]  " % (st.body_indent, st.next_off)
                inserts.append((st.insert_at, [(pre + "%s  %s" % (st2.name, inn), [(len(pre) + 1, (st2.file, st2.path()))])]))
                st.next_off += 1
                pre = "%s%d [+1]  " % (ind, t.next_off)
                rows.append((pre + "%s  %s" % (st.name, outn), [(len(pre) + 1, (st.file, st.path()))]))
                t.next_off += 1
                pre = "%slet %s = " % (ind, al)
                rows.append((pre + "%s.%s" % (outn, inn), [(len(pre) + 1, (t.file, t.path() + [outn])),
                                                         (len(pre) + 1 + len(outn) + 1, (st.file, st.path() + [inn]))]))
                shared = [f[0] for f in st2.fields if f[0] in [g[0] for g in st.fields]]
                leaf = rng.choice(shared) if shared and rng.random() < 0.8 else rng.choice(st2.fields)[0]
                counter[0] += 1
                pre = "%slet zz%d = " % (ind, counter[0])
                rows.append((pre + "%s.%s + 1" % (al, leaf), [(len(pre) + 1, (t.file, t.path() + [al])),
                                                           (len(pre) + 1 + len(al) + 1, (st2.file, st2.path() + [leaf]))]))
        # injected faults that need this struct
        if want_fault and not fault_done and rng.random() < 0.6:
            fk = rng.random()
            counter[0] += 1
            nm = "qq%d" % counter[0]
            if fk < 0.3:
                rows.append(("%slet %s = nosuchname + 1" % (ind, nm), []))
                fault[0] = ("No candidate", "nosuchname")
                fault_done = True
            elif fk < 0.45:
                rows.append(("%s%d [+1]  NoSuchType  %s" % (ind, t.next_off, nm), []))
                fault[0] = ("No candidate", "NoSuchType")
                fault_done = True
            elif fk < 0.6 and t.fields:
                fn = t.fields[0][0]
                rows.append(("%s%d [+1]  UInt  %s" % (ind, t.next_off, fn), []))
                fault[0] = ("Duplicate name", fn)
                fault_done = True
            elif fk < 0.75:
                # abbreviation of a sibling structure
                sibs = [(s2, ab) for s2 in all_structs if s2 is not t for (_f, ab, _t) in s2.fields if ab]
                own = set(x for f in t.fields for x in f[:2] if x) | set(t.params)
                sibs = [(s2, ab) for s2, ab in sibs if ab not in own and not (have_lib and ab == alias)]
                if sibs:
                    s2, ab = rng.choice(sibs)
                    rows.append(("%slet %s = %s + 1" % (ind, nm, ab), []))
                    fault[0] = ("No candidate", ab)
                    fault_done = True
            elif fk < 0.9:
                # enum value without its enum
                enums = [e for e in main.types.values() if e.kind == "enum"]
                if enums:
                    v = rng.choice(enums).values[0]
                    own = set(x for f in t.fields for x in f[:2] if x)
                    if v not in own:
                        rows.append(("%slet %s = %s" % (ind, nm, v), []))
                        fault[0] = ("No candidate", v)
                        fault_done = True
            else:
                # field of an enclosing structure is not visible from a nested one
                if t.parent is not None and t.parent.kind == "struct" and t.parent.fields:
                    fn = t.parent.fields[0][0]
                    own = set(x for f in t.fields for x in f[:2] if x) | set(t.params)
                    if fn not in own and not (have_lib and fn == alias):
                        rows.append(("%slet %s = %s + 1" % (ind, nm, fn), []))
                        fault[0] = ("No candidate", fn)
                        fault_done = True
        inserts.append((t.insert_at, rows))
    # duplicate type name at module level as a fault
    if want_fault and not fault_done and rng.random() < 0.5 and main.types:
        dn = rng.choice(list(main.types))
        main_lines.append("struct %s:" % dn)
        main_lines.append("  0 [+1]  UInt  filler")
        fault[0] = ("Duplicate name", dn)
        fault_done = True
    for at, rows in sorted(inserts, key=lambda x: -x[0]):
        for text, _refs in reversed(rows):
            main_lines.insert(at, text)
    # positions: recompute line numbers by searching the exact inserted texts
    text_main = "\n".join(main_lines) + "\n"
    line_of = {}
    for i, l in enumerate(main_lines, 1):
        line_of.setdefault(l, i)
    for _at, rows in inserts:
        for text, refs in rows:
            for col, intended in refs:
                planted.append((line_of[text], col, intended, text.strip()))
    files["m.emb"] = text_main
    if have_lib:
        files["lib.emb"] = "\n".join(lib_lines) + "\n"
    return {"files": files, "planted": planted, "fault": fault[0]}


def collect_refs(node, out):
    if isinstance(node, dict):
        if "canonical_name" in node and "source_name" in node and "source_location" in node:
            out.append(node)
        for k, v in node.items():
            collect_refs(v, out)
    elif isinstance(node, list):
        for v in node:
            collect_refs(v, out)


def collect_defs(node, out):
    if isinstance(node, dict):
        if "name" in node and isinstance(node["name"], dict) and "canonical_name" in node["name"] and "name" in node["name"]:
            out.append(node["name"])
        for k, v in node.items():
            collect_defs(v, out)
    elif isinstance(node, list):
        for v in node:
            collect_defs(v, out)


def judge(case):
    """Returns (status, [(mech, what)], stats)."""
    from compiler.util import ir_data_utils, ir_util, ir_data
    stats = {"refs": 0, "defs": 0}
    try:
        ir, _d, errors = embc.parse(case["files"], stop_before_step="annotate_types")
    except Exception as e:
        et, site = embc.crash_site(e)
        return "crash", [("crash:%s@%s" % (et, site), repr(e))], stats
    viol = []
    fault = case["fault"]
    if errors:
        first = errors[0][0].message.split("\n")[0]
        if fault is None:
            return "rejected", [("clean-module-rejected", "module built without name faults is rejected: %s" % first)], stats
        klass, name = fault
        if not (first.startswith(klass) and ("'%s'" % name) in first):
            viol.append(("wrong-name-error", "injected fault expects %s '%s' but first error is %r" % (klass, name, first)))
        if len(errors) != 1:
            viol.append(("extra-errors", "injected one fault (%s '%s') but %d error groups reported: %r" % (
                klass, name, len(errors), [g[0].message.split("\n")[0] for g in errors][:4])))
        return "rejected", viol, stats
    if fault is not None:
        return "accepted", [("name-fault-accepted", "injected fault %s '%s' but the module is accepted" % fault)], stats
    d = ir_data_utils.IrDataSerializer(ir.module[0]).to_dict(exclude_none=True)
    refs = []
    collect_refs(d, refs)
    by_pos = {}
    for r in refs:
        # a member reference's own location includes the preceding dot: index by
        # the location of the first written name as well
        locs = [r["source_location"]]
        if r.get("source_name") and "source_location" in r["source_name"][0]:
            locs.append(r["source_name"][0]["source_location"])
        for loc in locs:
            start = loc.split("-")[0]
            try:
                l, c = start.split(":")
                by_pos.setdefault((int(l), int(c)), r)
            except ValueError:
                pass
    for line, col, intended, text in case["planted"]:
        stats["refs"] += 1
        # a dotted source reference is one Reference whose location starts at the head
        r = by_pos.get((line, col))
        if r is None:
            viol.append(("reference-not-found", "no Reference at %d:%d for %r" % (line, col, text)))
            continue
        cn = r["canonical_name"]
        got = (cn.get("module_file", ""), list(cn.get("object_path", [])))
        if got != (intended[0], list(intended[1])):
            viol.append(("resolved-to-wrong-definition", "%r at %d:%d resolved to %r, scoping rules designate %r" % (
                text, line, col, got, intended)))
    # every definition's canonical name leads back to it
    defs = []
    collect_defs(d, defs)
    seen = set()
    for nd in defs:
        cn = nd["canonical_name"]
        key = (cn.get("module_file", ""), tuple(cn.get("object_path", [])))
        stats["defs"] += 1
        if key in seen:
            viol.append(("canonical-name-not-unique", "two definitions share canonical name %r" % (key,)))
        seen.add(key)
        try:
            obj = ir_util.find_object(ir_data.CanonicalName(module_file=key[0], object_path=list(key[1])), ir)
            if obj is None or obj.name.name.text != nd["name"]["text"]:
                viol.append(("canonical-name-does-not-lead-back", "find_object(%r) gives %r" % (key, obj and obj.name.name.text)))
        except Exception as e:
            viol.append(("find-object-fails", "find_object(%r) raised %r" % (key, e)))
    return "accepted", viol, stats


def batch(arg):
    common.repo_on_path()
    out = {"viol": [], "n": 0, "status": {}, "faults": {}, "refs": 0, "defs": 0, "samples": [], "distinct": []}
    for i in range(arg["start"], arg["start"] + arg["count"]):
        rng = common.case_rng(arg["seed"], "C12", i)
        case = build(rng)
        out["n"] += 1
        st, viol, stats = judge(case)
        out["status"][st] = out["status"].get(st, 0) + 1
        out["refs"] += stats["refs"]
        out["defs"] += stats["defs"]
        if case["fault"]:
            k = case["fault"][0]
            out["faults"][k] = out["faults"].get(k, 0) + 1
        out["distinct"].append(hash((st, case["fault"] and case["fault"][0], len(case["planted"]), len(case["files"]))))
        for mech, what in viol:
            out["viol"].append({"mech": mech, "what": what, "files": case["files"], "fault": case["fault"], "case": i})
        if not out["samples"] and len(case["planted"]) >= 3 and not case["fault"]:
            out["samples"].append({"case": i, "text": case["files"]["m.emb"][:900],
                                   "planted": [(l, c, tgt) for l, c, tgt, _t in case["planted"]][:6]})
    out["viol"] = common.cap_by_mech(out["viol"])
    return out


def run(ctx):
    quick = ctx.tier == "quick"
    n = 3000 if quick else 60000
    per = 100 if quick else 1000
    args = [{"seed": ctx.seed, "start": s, "count": min(per, n - s)} for s in range(0, n, per)]
    res = common.run_cases("c12", "batch", args, timeout=2400)
    for a, (st, val) in zip(args, res):
        if st != "ok" or not val.get("ok"):
            ctx.inconclusive_cases += a["count"]
            ctx.evaluations += a["count"]
            if st == "ok":
                print("worker error:", val.get("err"), val.get("tb", "")[-800:])
            continue
        v = val["val"]
        ctx.evaluations += v["n"]
        ctx.count("references_compared", v["refs"])
        ctx.count("definitions_checked", v["defs"])
        for k, c in v["status"].items():
            ctx.count("status_" + k, c)
        for k, c in v["faults"].items():
            ctx.count("fault_" + k.replace(" ", "_"), c)
        for h in v["distinct"]:
            ctx.distinct.add(h)
        for s in v["samples"]:
            ctx.sample(s, limit=3)
        for x in v["viol"]:
            ctx.violation("C12:" + x["mech"], x["what"], x)
    ctx.rule = ("case = one generated scope tree (main module, optional imported module, module-level types, subtypes nested up "
                "to 3 deep, parameters, fields with abbreviations, enum values) with planted references of known target (simple and "
                "dotted type names, imported names, enum values, fields, abbreviations, parameters) and at most one injected fault; "
                "distinct_nontrivial = distinct (verdict, fault class, number of planted references, number of files)")
    ctx.assumptions = ["the scoping rules are those stated in the property (own scope, enclosing types, module, prelude, named "
                       "import; fields and enum values are only visible inside their own scope or after a dot)",
                       "the pipeline is stopped before type annotation, so later passes cannot mask name errors"]
    return ctx.finish(min_evals=n // 2, require=("references_compared", "definitions_checked", "status_accepted", "status_rejected",
                                                 "fault_No_candidate", "fault_Duplicate_name", "fault_Ambiguous_name"))


def replay(path):
    common.repo_on_path()
    with open(path) as f:
        rp = json.load(f)
    rng = common.case_rng(rp["seed"], "C12", rp["replay"]["case"])
    case = build(rng)
    st, viol, _s = judge(case)
    for mech, what in viol:
        print("VIOLATION property=C12 replay=%s\n  %s: %s" % (path, mech, what))
    print(case["files"]["m.emb"])
    return 1 if viol else 0
