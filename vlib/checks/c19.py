"""C19 — enum names, values and C++ representation match the definition.

Reference-model monitor: a driver (built against the header the real compiler
emits) prints std::is_signed / sizeof of the underlying type, the value of
every enumerator in every requested enum_case spelling, and the results of
TryToGetEnumFromName / TryToGetNameFromEnum / EnumIsKnown / operator<< over
probe sets of names and values in and around the declared set; compared with a
model computed from the definition.  Field behaviour of enums (read/write at
every width) is C02/C03's machinery.
"""

import json
import os
import subprocess

from vlib import common, cppdrv, embc

LEVEL = "exploration"

WORDS = ["FOO", "BAR", "BAZ", "ON", "OFF", "ALPHA", "BETA", "X1", "V2", "RED", "GREEN", "UPPER", "LIMIT", "MAX", "MIN",
         "A", "B", "ID", "RANGE", "CHANNEL"]


def k_camel(name):
    return "k" + "".join(w.capitalize() for w in name.split("_"))


def gen_enum(rng, idx, module_default_case):
    """Returns dict describing one enum + its .emb text lines."""
    name = "En%d%s" % (idx, rng.choice(["", "Ab", "X"]))
    n = rng.randint(1, 12)
    style = rng.random()
    signed_style = style < 0.3
    max_bits = None
    if rng.random() < 0.5:
        max_bits = rng.choice([1, 2, 7, 8, 9, 15, 16, 17, 31, 32, 33, 63, 64])
    is_signed_attr = None
    if rng.random() < 0.35:
        is_signed_attr = signed_style
    eff_bits = max_bits or 64
    eff_signed = is_signed_attr if is_signed_attr is not None else signed_style
    lo, hi = (-(1 << (eff_bits - 1)), (1 << (eff_bits - 1)) - 1) if eff_signed else (0, (1 << eff_bits) - 1)
    values = []
    names = set()
    cpp_names = set()
    enum_default = None
    if rng.random() < 0.4:
        enum_default = rng.choice(["SHOUTY_CASE", "kCamelCase", "SHOUTY_CASE, kCamelCase", "kCamelCase, SHOUTY_CASE"])
    for i in range(n):
        for _try in range(20):
            k = rng.randint(1, 3)
            nm = "_".join(rng.choice(WORDS) for _ in range(k))
            if rng.random() < 0.3:
                nm += str(rng.randint(0, 9))
            if len(nm) < 2 or (len(nm) >= 2 and nm[1:].isdigit()):
                nm += "_Z"
            vcase = None
            if rng.random() < 0.3:
                vcase = rng.choice(["SHOUTY_CASE", "kCamelCase", "SHOUTY_CASE, kCamelCase", "kCamelCase, SHOUTY_CASE"])
            case = vcase or enum_default or module_default_case or "SHOUTY_CASE"
            spellings = [nm if c.strip() == "SHOUTY_CASE" else k_camel(nm) for c in case.split(",")]
            if nm in names or any(s in cpp_names for s in spellings) or len(set(spellings)) != len(spellings):
                continue
            break
        else:
            continue
        names.add(nm)
        cpp_names.update(spellings)
        r = rng.random()
        if r < 0.35:
            v = max(lo, min(hi, i))
        elif r < 0.5 and values:
            v = rng.choice(values)["value"]  # duplicate value
        elif r < 0.62:
            v = rng.choice([lo, hi, max(lo, min(hi, -1)), max(lo, min(hi, 0)), max(lo, min(hi, 1))])
        elif r < 0.8:
            # the 2^k edges of the C++ integer types, whatever the enum's own range (literal rendering differs there)
            k = rng.choice([7, 8, 15, 16, 31, 31, 32, 63])
            v = max(lo, min(hi, rng.choice([1, -1]) * (1 << k) + rng.choice([0, 0, -1, 1])))
        else:
            v = rng.randint(max(lo, -1000), min(hi, 1000)) if rng.random() < 0.6 else rng.randint(lo, hi)
        if not eff_signed and is_signed_attr is None and v < 0:
            v = -v
        values.append({"name": nm, "value": v, "case": vcase, "spellings": spellings})
    if is_signed_attr is None:
        eff_signed = any(v["value"] < 0 for v in values)
        if not eff_signed:
            # unsigned by inference: values must fit the unsigned range
            for v in values:
                v["value"] = min(v["value"], (1 << eff_bits) - 1)
    lines = ["enum %s:" % name]
    if is_signed_attr is not None:
        lines.append("  [is_signed: %s]" % ("true" if is_signed_attr else "false"))
    if max_bits is not None:
        lines.append("  [maximum_bits: %d]" % max_bits)
    if enum_default:
        lines.append('  [(cpp) $default enum_case: "%s"]' % enum_default)
    for v in values:
        l = "  %s = %d" % (v["name"], v["value"])
        if v["case"]:
            if rng.random() < 0.5:
                l += '  [(cpp) enum_case: "%s"]' % v["case"]
            else:
                l += '\n    [(cpp) enum_case: "%s"]' % v["case"]
        lines.append(l)
    ubits = 8
    while ubits < eff_bits:
        ubits *= 2
    return {"name": name, "values": values, "signed": eff_signed, "ubits": ubits, "lines": lines, "max_bits": eff_bits}


def lit(v, signed):
    if v == -(1 << 63):
        return "(-9223372036854775807LL - 1)"
    return "%dLL" % v if signed else "%dULL" % v


def model(e, probe_names, probe_values):
    out = {}
    out["%s.signed" % e["name"]] = "1" if e["signed"] else "0"
    out["%s.bits" % e["name"]] = str(e["ubits"])
    by_name = {v["name"]: v["value"] for v in e["values"]}
    first_name = {}
    for v in e["values"]:
        first_name.setdefault(v["value"], v["name"])
        for s in v["spellings"]:
            out["%s.val.%s" % (e["name"], s)] = str(v["value"])
    for i, p in enumerate(probe_names):
        out["%s.from.%d" % (e["name"], i)] = str(by_name[p]) if p in by_name else "-"
    out["%s.from.null" % e["name"]] = "-"
    for v in probe_values:
        out["%s.name.%d" % (e["name"], v)] = first_name.get(v, "-")
        out["%s.known.%d" % (e["name"], v)] = "1" if v in first_name else "0"
        if v in first_name or e["ubits"] > 8:
            # an unnamed value of an 8-bit enum is streamed as a character by
            # operator<<; the property does not speak about that case
            out["%s.os.%d" % (e["name"], v)] = first_name.get(v, str(v))
    return out


def field_probe_values(e, wbits):
    """Values to offer an enum field of `wbits` bits: 0, 1, the field's all-ones value, its top bit, one past the
    field (when the enum's C++ type can express it), and the declared values."""
    u_hi = (1 << (e["ubits"] - (1 if e["signed"] else 0))) - 1
    vals = {0, 1, (1 << wbits) - 1, 1 << (wbits - 1), (1 << (wbits - 1)) - 1, 1 << wbits}
    vals.update(v["value"] for v in e["values"])
    return sorted(x for x in vals if 0 <= x <= u_hi)


def driver_source(ns, enums, probes, traits, fields=(), holder_size=0):
    L = ['#include "m.emb.h"', cppdrv.COMMON, "int main() {", "  std::ostringstream out; g_out = &out;"]
    if fields:
        L.append("  { static unsigned char hb_[%d] = {0}; auto hv_ = ::%s::MakeHolderView(hb_, sizeof hb_);" % (max(1, holder_size), ns))
        for e, fname, wbits in fields:
            if e["signed"]:
                continue  # narrow signed enum fields: listed finding (C01/C02/C03), not probed here
            q = "::%s::%s" % (ns, e["name"])
            for x in field_probe_values(e, wbits):
                L.append('    { typedef %s E; typedef std::underlying_type<E>::type U; E a_ = static_cast<E>(static_cast<U>(%s)); '
                         'bool c_ = hv_.%s().CouldWriteValue(a_); bool t_ = hv_.%s().TryToWrite(a_); '
                         'put("field.%s.%d", std::string(c_ ? "1" : "0") + (t_ ? "1" : "0") + ((t_ && hv_.%s().Read() == a_) ? "1" : "0")); }' % (
                             q, lit(x, False), fname, fname, fname, x, fname))
        L.append("  }")
    for e in enums:
        q = "::%s::%s" % (ns, e["name"])
        pn, pv = probes[e["name"]]
        L.append("  { typedef %s E; typedef std::underlying_type<E>::type U;" % q)
        L.append('    putb("%s.signed", std::is_signed<U>::value); put("%s.bits", std::to_string(sizeof(U) * 8));' % (e["name"], e["name"]))
        for v in e["values"]:
            for s in v["spellings"]:
                L.append('    put("%s.val.%s", valstr(static_cast<U>(E::%s)));' % (e["name"], s, s))
        if traits:
            for i, p in enumerate(pn):
                L.append('    { E r = static_cast<E>(0); bool ok = TryToGetEnumFromName("%s", &r); put("%s.from.%d", ok ? valstr(r) : std::string("-")); }' % (
                    p, e["name"], i))
            L.append('    { E r = static_cast<E>(0); bool ok = TryToGetEnumFromName(nullptr, &r); put("%s.from.null", ok ? valstr(r) : std::string("-")); }' % e["name"])
            for v in pv:
                L.append('    { E x = static_cast<E>(static_cast<U>(%s)); const char *n = TryToGetNameFromEnum(x); put("%s.name.%d", n ? n : "-"); '
                         'putb("%s.known.%d", EnumIsKnown(x)); std::ostringstream os; os << x; put("%s.os.%d", os.str()); }' % (
                             lit(v, e["signed"]), e["name"], v, e["name"], v, e["name"], v))
        L.append("  }")
    L.append('  std::cout << out.str() << "#DONE" << std::endl; return 0; }')
    return "\n".join(L)


def module_case(arg):
    common.repo_on_path()
    rng = common.case_rng(arg["seed"], "C19", arg["idx"])
    out = {"idx": arg["idx"], "viol": [], "enums": 0, "keys": 0, "built": False, "sample": None, "rejected": None,
           "distinct": [], "features": {}}
    mod_default = rng.choice([None, None, "kCamelCase", "SHOUTY_CASE", "SHOUTY_CASE, kCamelCase"])
    ns = rng.choice(["emboss_generated_code", "a::b", "enumtest"])
    enums = [gen_enum(rng, i, mod_default) for i in range(rng.randint(2, 5))]
    enums = [e for e in enums if e["values"]]
    lines = ['[$default byte_order: "LittleEndian"]']
    if ns != "emboss_generated_code":
        lines.append('[(cpp) namespace: "%s"]' % ns)
    if mod_default:
        lines.append('[(cpp) $default enum_case: "%s"]' % mod_default)
    lines.append("")
    for e in enums:
        lines.extend(e["lines"])
        lines.append("")
    # one struct using each enum in a field of a legal width (also exercises inline use)
    lines.append("struct Holder:")
    off = 0
    fields = []  # (enum, field name, width in bits): where "enum fields accept any in-range value" is probed
    for e in enums:
        w = max(1, min(8, (e["max_bits"] + 7) // 8 if e["max_bits"] % 8 == 0 else e["max_bits"] // 8))
        if w * 8 > e["max_bits"]:
            continue
        lines.append("  %d [+%d]  %s  f%d" % (off, w, e["name"], off))
        fields.append((e, "f%d" % off, w * 8))
        off += w
    # fields narrower than the enum's C++ type, inside a bits block
    narrow = [(e, rng.randint(1, min(e["max_bits"], 15))) for e in enums if e["max_bits"] >= 1]
    if narrow:
        total = sum(wb for _e, wb in narrow)
        nbytes = (total + 7) // 8
        if nbytes in (1, 2, 3, 4, 5, 6, 7, 8):
            lines.append("  %d [+%d]  bits:" % (off, nbytes))
            pos = 0
            for j, (e, wb) in enumerate(narrow):
                lines.append("    %d [+%d]  %s  nb%d" % (pos, wb, e["name"], j))
                fields.append((e, "nb%d" % j, wb))
                pos += wb
            off += nbytes
    if off == 0:
        lines.append("  0 [+1]  UInt  pad")
        off = 1
    holder_size = off
    text = "\n".join(lines) + "\n"
    traits = arg["idx"] % 4 != 3
    try:
        ir, _d, errors = embc.parse({"m.emb": text})
    except Exception as ex:
        out["rejected"] = "crash %r" % (ex,)
        return out
    if errors:
        out["rejected"] = errors[0][0].message.split("\n")[0]
        out["text"] = text
        return out
    hdr, herr = embc.header(ir, traits)
    if herr:
        out["rejected"] = "backend: " + herr[0][0].message.split("\n")[0]
        return out
    probes = {}
    for e in enums:
        names = [v["name"] for v in e["values"]]
        pn = list(names)
        for v in e["values"]:
            pn.append(k_camel(v["name"]))
            pn.append(v["name"][:-1])
            pn.append(v["name"] + "X")
            pn.append(v["name"].lower())
            pn.append(v["name"].capitalize())
        pn += ["", " ", "k", "FOO ", "UNKNOWN_NAME_Q"]
        pn = list(dict.fromkeys(pn))[:60]
        lo, hi = (-(1 << (e["ubits"] - 1)), (1 << (e["ubits"] - 1)) - 1) if e["signed"] else (0, (1 << e["ubits"]) - 1)
        pv = set()
        for v in e["values"]:
            for d in (-1, 0, 1):
                if lo <= v["value"] + d <= hi:
                    pv.add(v["value"] + d)
        pv.update([lo, hi, max(lo, min(hi, 0))])
        probes[e["name"]] = (pn, sorted(pv)[:60])
    with common.Scratch("c19") as d:
        with open(os.path.join(d, "m.emb.h"), "w") as f:
            f.write(hdr)
        comp = arg["idx"] % 2
        flav = "plain" if comp == 0 else "gcc0"
        b, err = cppdrv.build(d, driver_source(ns.strip(":"), enums, probes, traits, fields, holder_size), flav, name="enumdrv")
        if b is None:
            out["viol"].append({"mech": "driver-does-not-compile", "what": err[-1500:], "text": text, "coords": {"seed": arg["seed"], "idx": arg["idx"]}})
            return out
        out["built"] = True
        r = subprocess.run([b], capture_output=True, text=True, timeout=120, errors="replace")
        if r.returncode != 0 or "#DONE" not in r.stdout:
            out["viol"].append({"mech": "driver-aborted", "what": r.stderr[-800:], "text": text, "coords": {"seed": arg["seed"], "idx": arg["idx"]}})
            return out
        got = dict(l.split("=", 1) for l in r.stdout.split("\n") if "=" in l)
    for e in enums:
        pn, pv = probes[e["name"]]
        exp = model(e, pn, pv)
        if not traits:
            exp = {k: v for k, v in exp.items() if ".val." in k or k.endswith(".signed") or k.endswith(".bits")}
        out["enums"] += 1
        out["keys"] += len(exp)
        out["distinct"].append(hash((e["signed"], e["ubits"], len(e["values"]), tuple(sorted(set(len(v["spellings"]) for v in e["values"]))))))
        f = out["features"]
        f["signed" if e["signed"] else "unsigned"] = f.get("signed" if e["signed"] else "unsigned", 0) + 1
        f["bits%d" % e["ubits"]] = f.get("bits%d" % e["ubits"], 0) + 1
        if len(set(v["value"] for v in e["values"])) < len(e["values"]):
            f["duplicate_values"] = f.get("duplicate_values", 0) + 1
        if any(len(v["spellings"]) > 1 for v in e["values"]):
            f["two_spellings"] = f.get("two_spellings", 0) + 1
        diffs = [(k, v, got.get(k)) for k, v in exp.items() if got.get(k) != v]
        if diffs:
            kinds = sorted(set(k.split(".")[1] for k, _v, _g in diffs))
            out["viol"].append({"mech": "enum-differs:" + ",".join(kinds),
                                "what": "enum %s: %s" % (e["name"], "; ".join("%s expected %s got %s" % d for d in diffs[:6])),
                                "text": text, "coords": {"seed": arg["seed"], "idx": arg["idx"]}})
        elif out["sample"] is None:
            out["sample"] = {"definition": e["lines"], "observed": {k: got[k] for k in list(exp)[:12]}}
    # enum fields accept any value the field can hold, named or not, and refuse the others
    fdiffs = []
    for e, fname, wbits in fields:
        if e["signed"]:
            continue
        for x in field_probe_values(e, wbits):
            want = "111" if x <= (1 << wbits) - 1 else "000"
            g = got.get("field.%s.%d" % (fname, x))
            out["field_probes"] = out.get("field_probes", 0) + 1
            if g != want:
                fdiffs.append("%s (%d bits, enum %s): value %d could/try/readback %s expected %s" % (fname, wbits, e["name"], x, g, want))
    if fdiffs:
        out["viol"].append({"mech": "enum-field-acceptance", "what": "; ".join(fdiffs[:5]), "text": text,
                            "coords": {"seed": arg["seed"], "idx": arg["idx"]}})
    return out


def run(ctx):
    quick = ctx.tier == "quick"
    n = 48 if quick else 800
    args = [{"seed": ctx.seed, "idx": i} for i in range(n)]
    res = common.run_cases("c19", "module_case", args, timeout=900)
    feats = {}
    for a, (st, val) in zip(args, res):
        if st != "ok" or not val.get("ok"):
            ctx.inconclusive_cases += 1
            ctx.evaluations += 1
            if st == "ok":
                print("worker error:", val.get("err"), val.get("tb", "")[-800:])
            continue
        v = val["val"]
        ctx.count("modules")
        if v["rejected"]:
            ctx.count("generator_rejects")
            ctx.extra.setdefault("reject_reasons", {}).setdefault(v["rejected"][:90], 0)
            ctx.extra["reject_reasons"][v["rejected"][:90]] += 1
            continue
        ctx.count("modules_built", 1 if v["built"] else 0)
        ctx.evaluations += v["enums"]
        ctx.count("enums_judged", v["enums"])
        ctx.count("keys_compared", v["keys"])
        ctx.count("enum_field_write_probes", v.get("field_probes", 0))
        for k, c in v["features"].items():
            feats[k] = feats.get(k, 0) + c
        for h in v["distinct"]:
            ctx.distinct.add(h)
        if v["sample"]:
            ctx.sample(v["sample"], limit=3)
        for x in v["viol"]:
            ctx.violation("C19:" + x["mech"], x["what"], x)
    ctx.extra["features"] = feats
    ctx.rule = ("case = one generated enum (1-12 names of 1-3 words, duplicate / negative / extreme values, explicit or inferred "
                "is_signed, maximum_bits 1..64, enum_case at module / enum / value level with one or two spellings, with and "
                "without enum traits, clang and g++); distinct_nontrivial = distinct (signedness, underlying bits, number of "
                "names, spelling counts)")
    ctx.assumptions = ["kCamelCase spelling = 'k' + capitalised words (language reference example)",
                       "generator avoids C++ identifier collisions between spellings (those are C07's subject)"]
    return ctx.finish(min_evals=n, require=("modules_built", "enums_judged", "keys_compared"))


def replay(path):
    with open(path) as f:
        rp = json.load(f)["replay"]
    r = module_case(rp["coords"])
    for x in r["viol"]:
        print("VIOLATION property=C19 replay=%s\n  %s: %s" % (path, x["mech"], x["what"][:600]))
    return 1 if r["viol"] else 0
