"""C20 — CopyFrom and Equals implement logical copy and logical equality.

Reference-model + conservation monitor on recorded (a, b, op, result, a', b')
tuples from the real generated code (ASan+UBSan build): Equals against the
model's logical equality (presence pattern + every present physical field,
recursively; floats by IEEE ==; uncovered bits ignored), symmetry;
TryToCopyFrom result, destination bytes (first n = source's, rest untouched),
destination Ok and Equals source; overlapping views inside one allocation
against a memmove model.  Equals is only invoked when both views are Ok.
"""

import json

from vlib import common, cppdrv, cppsuite, eqmodel, refsem
from vlib.refsem import known

LEVEL = "exploration"


def cppdrv_first_error(err):
    import re as _re
    m = _re.search(r"error: (.*)", err or "")
    return _re.sub(r"'[^']*'", "'X'", m.group(1))[:100] if m else "unknown"


def module_case(arg):
    common.repo_on_path()
    out = {"idx": arg["idx"], "viol": [], "cases": 0, "eq_true": 0, "eq_false": 0, "copies_ok": 0, "copies_refused": 0,
           "overlap_copies": 0, "abstained": 0, "aborts": [], "distinct": [], "built": False, "sample": None, "rejected": 0,
           "pair_kinds": {}}
    profile = arg.get("profile")
    if profile is None and arg["idx"] % 3 == 1:
        profile = {"union_bias": True}  # every third module: tagged unions over twin sub-structures
    gm = cppsuite.gen_module(arg["seed"], "mod", arg["idx"], profile)
    out["rejected"] = len(gm["rejected"])
    if gm["m"] is None:
        return out
    m = gm["m"]
    flavour = "asan-portable" if arg["idx"] % 3 == 0 else "asan"
    with common.Scratch("c20") as d:
        built = cppsuite.Built(d, gm)
        b = built.build("eqcopy", flavour)
        if b is None:
            # a header + driver that does not compile is C07's observation; here the module is a counted skip
            out["compile_failed"] = cppdrv_first_error(built.build_errors[("eqcopy", flavour)])
            return out
        out["built"] = True
        tops = [s for s in m.structs if s.kind == "struct"]
        rng = common.case_rng(arg["seed"], "C20cases", arg["idx"])
        lines, meta = [], {}
        ci = 0
        for si, s in enumerate(tops):
            for _rep in range(arg["pairs_per_struct"]):
                params = cppsuite.rand_params(rng, s)
                pd = cppsuite.pdict(s, params)
                pl = " ".join(str(x) for x in params)
                a = bytearray(cppsuite.rand_buffer(rng, m, s, params))
                va = refsem.view(m, s.name, pd, bytearray(a))
                kind = rng.choice(["same", "flip-covered", "flip-uncovered", "longer", "other", "flip-any"])
                bb = bytearray(a)
                if kind == "flip-covered" and va.ok() is True:
                    cov = sorted(eqmodel.covered_bits(va))
                    if cov:
                        x = rng.choice(cov)
                        bb[x >> 3] ^= 1 << (x & 7)
                elif kind == "flip-uncovered" and va.ok() is True:
                    cov = eqmodel.covered_bits(va)
                    unc = [x for x in range(len(a) * 8) if x not in cov]
                    for x in rng.sample(unc, min(len(unc), rng.randint(1, 4))):
                        bb[x >> 3] ^= 1 << (x & 7)
                elif kind == "longer":
                    bb = bb + bytearray(rng.getrandbits(8) for _ in range(rng.randint(1, 4)))
                elif kind == "other":
                    bb = bytearray(cppsuite.rand_buffer(rng, m, s, params))
                elif kind == "flip-any" and bb:
                    x = rng.randrange(len(bb) * 8)
                    bb[x >> 3] ^= 1 << (x & 7)
                out["pair_kinds"][kind] = out["pair_kinds"].get(kind, 0) + 1
                for opn in ("eq", "copy"):
                    cid = "p%d" % ci
                    ci += 1
                    lines.append("%s %s %d %d %s %s %s" % (cid, opn, si, len(params), pl, bytes(a).hex() or "-", bytes(bb).hex() or "-"))
                    meta[cid] = (opn, si, params, bytes(a), bytes(bb), kind)
                if rng.random() < 0.35 and len(a) > 0:
                    # overlapping copy inside one allocation
                    total = bytearray(a) + bytearray(rng.getrandbits(8) for _ in range(rng.randint(0, 6)))
                    sl = len(a)
                    shift = rng.randint(-min(4, 0), min(6, len(total) - 1))
                    so = 0
                    dn = max(0, min(len(total) - 1, shift))
                    dl = len(total) - dn
                    cid = "p%d" % ci
                    ci += 1
                    lines.append("%s ocopy %d %d %s %s %d %d %d %d" % (cid, si, len(params), pl, bytes(total).hex(), so, sl, dn, dl))
                    meta[cid] = ("ocopy", si, params, bytes(total), (so, sl, dn, dl), "overlap")
        results, failures = cppsuite.run_all(b, lines)
        for f in failures:
            kind, detail = cppdrv.summarize_report(f)
            mm = meta.get(f["case"])
            out["aborts"].append({"kind": kind, "detail": detail, "case": f["case"], "report": f["report"][-1200:],
                                  "coords": gm["coords"], "meta": repr(mm)[:400]})
        for cid, (opn, si, params, a, bb, kind) in meta.items():
            r = results.get(cid)
            if r is None or "#partial" in r:
                continue
            s = tops[si]
            pd = cppsuite.pdict(s, params)
            out["cases"] += 1
            problems = []
            try:
                if opn == "ocopy":
                    so, sl, dn, dl = bb
                    vs = refsem.view(m, s.name, pd, bytearray(a[so:so + sl]))
                    sok = vs.ok()
                    if sok is refsem.UNSPEC:
                        raise eqmodel.Abstain()
                    n = vs.size()
                    exp_copied = sok is True and known(n) and dl >= n and sl >= n
                    exp_all = bytearray(a)
                    if exp_copied:
                        exp_all[dn:dn + n] = a[so:so + n]  # memmove semantics: source bytes as they were
                    if r.get("copied") != ("1" if exp_copied else "0"):
                        problems.append(("overlap-copied", exp_copied, r.get("copied")))
                    if r.get("all") != (bytes(exp_all).hex() or "-"):
                        problems.append(("overlap-bytes", bytes(exp_all).hex(), r.get("all")))
                    out["overlap_copies"] += 1 if exp_copied else 0
                else:
                    va = refsem.view(m, s.name, pd, bytearray(a))
                    vb = refsem.view(m, s.name, pd, bytearray(bb))
                    oka, okb = va.ok(), vb.ok()
                    if oka is refsem.UNSPEC or okb is refsem.UNSPEC:
                        raise eqmodel.Abstain()
                    if r.get("a_ok") != ("1" if oka is True else "0") or r.get("b_ok") != ("1" if okb is True else "0"):
                        raise eqmodel.Abstain()  # an Ok() disagreement is C01's business
                    if opn == "eq":
                        if oka is True and okb is True:
                            e = eqmodel.eq_struct(va, vb)
                            (out.__setitem__("eq_true", out["eq_true"] + 1) if e else out.__setitem__("eq_false", out["eq_false"] + 1))
                            if r.get("eq_ab") != ("1" if e else "0"):
                                problems.append(("equals", e, r.get("eq_ab")))
                            if r.get("eq_ba") != r.get("eq_ab"):
                                problems.append(("equals-asymmetric", r.get("eq_ab"), r.get("eq_ba")))
                            out["distinct"].append(hash((arg["idx"], si, kind, e)))
                    else:
                        n = va.size()
                        exp_copied = oka is True and known(n) and len(bb) >= n
                        exp_dst = bytearray(bb)
                        if exp_copied:
                            exp_dst[:n] = a[:n]
                            out["copies_ok"] += 1
                        else:
                            out["copies_refused"] += 1
                        if r.get("copied") != ("1" if exp_copied else "0"):
                            problems.append(("copied", exp_copied, r.get("copied")))
                        if r.get("dst") != (bytes(exp_dst).hex() or "-"):
                            problems.append(("dst-bytes", bytes(exp_dst).hex(), r.get("dst")))
                        if r.get("src") != (a.hex() or "-"):
                            problems.append(("src-modified", a.hex(), r.get("src")))
                        if exp_copied:
                            vd = refsem.view(m, s.name, pd, bytearray(exp_dst))
                            dok = vd.ok()
                            if dok is True:
                                if r.get("dst_ok") != "1":
                                    problems.append(("dst-not-ok", True, r.get("dst_ok")))
                                if r.get("dst_eq_src") is not None:
                                    e = eqmodel.eq_struct(vd, va)
                                    if r.get("dst_eq_src") != ("1" if e else "0"):
                                        problems.append(("dst-equals-src", e, r.get("dst_eq_src")))
                        out["distinct"].append(hash((arg["idx"], si, kind, "copy", exp_copied)))
            except (eqmodel.Abstain, RecursionError):
                out["abstained"] += 1
                continue
            if problems:
                if opn == "ocopy":
                    tainted = cppsuite.signed_enum_taint(m, s, params, a[bb[0]:bb[0] + bb[1]])
                else:
                    tainted = cppsuite.signed_enum_taint(m, s, params, a) or cppsuite.signed_enum_taint(m, s, params, bb)
                out["viol"].append({"mech": "signed-enum-narrow-field-zero-extended" if tainted else
                                    "%s-differs:%s" % ("copy" if opn != "eq" else "equals", problems[0][0]),
                                    "what": "struct %s params %r op %s kind %s a=%s b=%s: %s" % (
                                        s.name, params, opn, kind, a.hex(), bb.hex() if isinstance(bb, bytes) else bb,
                                        "; ".join("%s expected %s got %s" % p for p in problems)),
                                    "coords": gm["coords"], "struct": s.name, "text": gm["text"]})
            elif out["sample"] is None and opn == "eq" and kind == "flip-uncovered" and r.get("eq_ab") == "1":
                out["sample"] = {"struct": s.name, "kind": kind, "a": a.hex(), "b": bb.hex(), "equals": r.get("eq_ab")}
    out["viol"] = common.cap_by_mech(out["viol"])
    return out


def run(ctx):
    quick = ctx.tier == "quick"
    nmod = 20 if quick else 200
    common.repo_on_path()
    with common.Scratch("c20canary") as d:
        ok, detail = cppdrv.liveness_canary(d)
    ctx.extra["sanitizer_canary"] = detail
    if not ok:
        raise common.Inconclusive("sanitizer liveness canary failed: " + detail)
    args = [{"seed": ctx.seed, "idx": i, "pairs_per_struct": 24 if quick else 80} for i in range(nmod)]
    res = common.run_cases("c20", "module_case", args, timeout=1500)
    kinds = {}
    for a, (st, val) in zip(args, res):
        if st != "ok" or not val.get("ok"):
            ctx.inconclusive_cases += 50
            ctx.evaluations += 50
            ctx.count("module_failed_" + st)
            if st == "ok":
                print("worker error:", val.get("err"), val.get("tb", "")[-800:])
            continue
        v = val["val"]
        ctx.count("modules")
        ctx.count("modules_built", 1 if v["built"] else 0)
        if v.get("compile_failed"):
            ctx.count("modules_skipped_driver_does_not_compile")
            ctx.extra.setdefault("compile_failures", {}).setdefault(v["compile_failed"], 0)
            ctx.extra["compile_failures"][v["compile_failed"]] += 1
        ctx.evaluations += v["cases"]
        for k in ("eq_true", "eq_false", "copies_ok", "copies_refused", "overlap_copies", "abstained"):
            ctx.count(k, v[k])
        for k, c in v["pair_kinds"].items():
            kinds[k] = kinds.get(k, 0) + c
        for h in v["distinct"]:
            ctx.distinct.add(h)
        if v["sample"]:
            ctx.sample(v["sample"], limit=4)
        for ab in v["aborts"]:
            ctx.count("driver_aborts")
            # an abort inside Equals/TryToCopyFrom is itself a failure to copy/compare
            ctx.violation("C20:abort:%s:%s" % (ab["kind"], ab["detail"]), "driver aborted in case %s: %s" % (
                ab.get("case"), ab.get("report", "")[-600:]), ab)
        for x in v["viol"]:
            ctx.violation("C20:" + x["mech"], x["what"], x)
    ctx.extra["pair_kinds"] = kinds
    ctx.rule = ("case = (module, structure, parameters, buffer pair, op): pairs are identical / one covered bit flipped / only "
                "uncovered bits flipped / different lengths / unrelated / any bit flipped, plus overlapping views in one "
                "allocation; distinct_nontrivial = distinct (module, structure, pair kind, verdict)")
    ctx.assumptions = ["floats compare by IEEE == (the property's 'reads equal')", "both views get the same parameter values",
                       "Equals only judged when both views are Ok per model and implementation"]
    return ctx.finish(min_evals=nmod * 20, require=("modules_built", "eq_true", "eq_false", "copies_ok", "copies_refused",
                                                    "overlap_copies"))


def replay(path):
    with open(path) as f:
        rp = json.load(f)["replay"]
    c = rp["coords"]
    r = module_case({"seed": c["seed"], "idx": c["idx"], "pairs_per_struct": 24})
    for x in r["viol"][:5]:
        print("VIOLATION property=C20 replay=%s\n  %s: %s" % (path, x["mech"], x["what"][:500]))
    return 1 if r["viol"] else 0
