"""C01 — generated views report structure state and values exactly as the
.emb defines.

(a) reference-model monitor: every line the C++ driver prints for a view (Ok,
    IsComplete, SizeIsKnown/size, has_x, x().Ok(), values, array counts and
    elements, nested views) is compared with vlib.refsem over the same spec,
    parameters and bytes; UNSPEC items are skipped.
(b) prefix-monotonicity checker over the recorded trace of one base buffer
    observed at every prefix length: anything known stays known with the same
    value.  Needs no model.
Drivers are ASan+UBSan builds with EMBOSS_CHECK on (alternating with
-DEMBOSS_NO_OPTIMIZATIONS), so every execution is also a C04 execution.
"""

import json

from vlib import common, cppdrv, cppsuite, observe, refsem

LEVEL = "exploration"


def cppdrv_first_error(err):
    import re as _re
    m = _re.search(r"error: (.*)", err or "")
    return _re.sub(r"'[^']*'", "'X'", m.group(1))[:100] if m else "unknown"
PID = "C01"


def _mono_items(obs):
    """Known items of one observation record that must persist when bytes are
    appended."""
    out = {}
    for k, v in obs.items():
        base = k.rsplit(".", 1)[-1] if "." in k else k
        if base in ("ok", "complete") and v == "1":
            out[k] = v
        elif base == "size_known" and v == "1":
            out[k] = v
        elif base == "size":
            out[k] = v
        elif base == "has" and v in ("0", "1"):
            out[k] = v
        elif base == "val":
            out[k] = v
    return out


def check_monotone(series):
    """series: list of (length, obs dict) with increasing length.  Returns
    list of (key, len_a, val_a, len_b, val_b)."""
    bad = []
    known = {}
    for n, obs in series:
        for k, (n0, v0) in list(known.items()):
            v = obs.get(k)
            if v != v0:
                # array elements/counts of clipped arrays are exempt (documented: unspecified)
                bad.append((k, n0, v0, n, v))
                del known[k]
        for k, v in _mono_items(obs).items():
            if k not in known:
                known[k] = (n, v)
    return bad


def module_case(arg):
    common.repo_on_path()
    out = {"idx": arg["idx"], "viol": [], "cases": 0, "keys": 0, "unspec": 0, "ok_structs": 0, "rejected": 0,
           "aborts": [], "distinct": [], "mono_series": 0, "mono_items": 0, "built": False, "sample": None,
           "features": {}}
    profile = arg.get("profile")
    if profile is None and arg["idx"] % 3 == 1:
        profile = {"union_bias": True}  # every third module: tagged unions over twin sub-structures
    elif profile is None and arg["idx"] % 6 == 5:
        profile = {"const_bias": True}  # every sixth module: many constant virtual fields, some conditional / constrained
    elif profile is None and arg["idx"] % 3 == 2:
        profile = {"wide_exprs": True}  # every third module: 32/64-bit arithmetic in virtual fields and conditions
    gm = cppsuite.gen_module(arg["seed"], "mod", arg["idx"], profile)
    out["rejected"] = len(gm["rejected"])
    out["reject_reasons"] = [r["why"][:80] for r in gm["rejected"]][:4]
    if gm["m"] is None:
        return out
    m = gm["m"]
    flavour = "asan-portable" if arg["idx"] % 3 == 2 else "asan"
    with common.Scratch("c01") as d:
        built = cppsuite.Built(d, gm)
        b = built.build("obs", flavour)
        if b is None:
            # a header + driver that does not compile is C07's observation; here the module is a counted skip
            out["compile_failed"] = cppdrv_first_error(built.build_errors[("obs", flavour)])
            return out
        out["built"] = True
        tops = [s for s in m.structs if s.kind == "struct"]
        rng = common.case_rng(arg["seed"], "C01cases", arg["idx"])
        lines, meta = [], {}
        series = []
        for ci in range(arg["ncases"]):
            si = rng.randrange(len(tops))
            s = tops[si]
            params = cppsuite.rand_params(rng, s)
            data = cppsuite.rand_buffer(rng, m, s, params)
            cid = "c%d" % ci
            pl = " ".join(str(x) for x in params)
            lines.append("%s obs %d %d %s %s" % (cid, si, len(params), pl, data.hex() or "-"))
            meta[cid] = (si, params, data)
            if ci % 4 == 0 and len(data) <= 48:
                ext = data + bytes(rng.getrandbits(8) for _ in range(2))
                ser = []
                for L in range(len(ext) + 1):
                    pid = "%sp%d" % (cid, L)
                    lines.append("%s obs %d %d %s %s" % (pid, si, len(params), pl, ext[:L].hex() or "-"))
                    meta[pid] = (si, params, ext[:L])
                    ser.append(pid)
                series.append(ser)
        results, failures = cppsuite.run_all(b, lines)
        for f in failures:
            kind, detail = cppdrv.summarize_report(f)
            si, params, data = meta.get(f["case"], (None, None, b""))
            out["aborts"].append({"kind": kind, "detail": detail, "case": f["case"], "report": f["report"][-1500:],
                                  "struct": tops[si].name if si is not None else None, "params": params,
                                  "data": data.hex(), "coords": gm["coords"]})
        feats = out["features"]
        for cid, (si, params, data) in meta.items():
            if cid not in results:
                continue
            if "#partial" in results[cid] and not cid.startswith("c"):
                continue
            s = tops[si]
            try:
                model = observe.observe(m, s.name, cppsuite.pdict(s, params), data)
            except RecursionError:
                continue
            out["cases"] += 1
            out["keys"] += len(model)
            out["unspec"] += sum(1 for v in model.values() if v == "UNSPEC")
            if model.get("ok") == "1":
                out["ok_structs"] += 1
            diffs = observe.compare(model, results[cid])
            for key, bound, sz in observe.check_size_bounds(results[cid]):
                out["size_bound_checks_failed"] = out.get("size_bound_checks_failed", 0) + 1
                diffs.append((key, "a bound of the size", "%s but the size is %s" % (bound, sz)))
            if diffs:
                diffs, exc = observe.reconcile(m, s.name, cppsuite.pdict(s, params), data, diffs,
                                               common.case_rng(arg["seed"], "c01-completion-" + cid, arg["idx"]),
                                               actual=results[cid])
                out["known_beyond_strict_confirmed_by_completions"] = out.get("known_beyond_strict_confirmed_by_completions", 0) + exc
            sig = (arg["idx"], si, model.get("ok"), model.get("complete"),
                   tuple(v for k, v in sorted(model.items()) if k.endswith(".has")))
            out["distinct"].append(hash(sig))
            for k, v in model.items():
                if k.endswith(".has"):
                    feats["has_" + v] = feats.get("has_" + v, 0) + 1
            if diffs:
                mech = cppsuite.classify_obs_diffs(m, s, diffs)
                if mech.startswith("observation-differs") and cppsuite.explained_by_ignored_requires(
                        cppsuite.constant_virtual_with_failing_requires(m, s, params, data), diffs):
                    mech = "requires-on-constant-virtual-field-ignored"
                out["viol"].append({"mech": mech, "what": "struct %s params %r bytes %s: %s" % (
                    s.name, params, data.hex(), "; ".join("%s expected %s got %s" % d for d in diffs[:5])),
                    "coords": gm["coords"], "struct": s.name, "params": params, "data": data.hex(),
                    "diffs": diffs[:12], "text": gm["text"]})
            elif out["sample"] is None and model.get("ok") == "1" and len(model) > 12:
                out["sample"] = {"module_excerpt": "\n".join(__import__("vlib.embspec", fromlist=["x"]).render_struct(s)),
                                 "params": params, "bytes": data.hex(),
                                 "observed": dict(list(results[cid].items())[:14])}
        for ser in series:
            rows = [(len(meta[p][2]), results[p]) for p in ser if p in results]
            if len(rows) < 2:
                continue
            out["mono_series"] += 1
            out["mono_items"] += sum(len(_mono_items(o)) for _n, o in rows)
            bad = check_monotone(rows)
            # exempt: items under arrays whose bytes were clipped (count not specified)
            si, params, _d = meta[ser[0]]
            s = tops[si]
            for k, n0, v0, n1, v1 in bad:
                if "[" in k:
                    continue
                fld = cppsuite.find_field(m, s, k)
                if fld is not None and fld.kind == "phys" and fld.type.kind == "array":
                    continue  # Ok()/count of an array whose bytes are clipped: not specified
                # tainted by the signed-enum finding? classify through the model of the longer buffer
                out["viol"].append({"mech": "not-prefix-monotone:" + (k.rsplit(".", 1)[-1] if "." in k else k),
                                    "what": "struct %s params %r: %s was %s with %d bytes but %s with %d bytes (bytes %s)" % (
                                        s.name, params, k, v0, n0, v1, n1, meta[ser[-1]][2].hex()),
                                    "coords": gm["coords"], "struct": s.name, "params": params,
                                    "data": meta[ser[-1]][2].hex(), "text": gm["text"]})
    out["viol"] = common.cap_by_mech(out["viol"])
    return out


def run(ctx):
    quick = ctx.tier == "quick"
    nmod = 24 if quick else 240
    ncases = 260 if quick else 500
    common.repo_on_path()
    with common.Scratch("c01canary") as d:
        ok, detail = cppdrv.liveness_canary(d)
    ctx.extra["sanitizer_canary"] = detail
    if not ok:
        raise common.Inconclusive("sanitizer liveness canary failed: " + detail)
    args = [{"seed": ctx.seed, "idx": i, "ncases": ncases} for i in range(nmod)]
    res = common.run_cases("c01", "module_case", args, timeout=1500)
    feats = {}
    for a, (st, val) in zip(args, res):
        if st != "ok" or not val.get("ok"):
            ctx.inconclusive_cases += a["ncases"]
            ctx.evaluations += a["ncases"]
            ctx.count("module_failed_" + st)
            if st == "ok":
                print("worker error:", val.get("err"), val.get("tb", "")[-800:])
            continue
        v = val["val"]
        ctx.count("modules")
        ctx.count("modules_built", 1 if v["built"] else 0)
        if v.get("compile_failed"):
            ctx.count("modules_skipped_driver_does_not_compile")
            ctx.extra.setdefault("compile_failures", {}).setdefault(v["compile_failed"], 0)
            ctx.extra["compile_failures"][v["compile_failed"]] += 1
        ctx.count("generator_rejects", v["rejected"])
        ctx.evaluations += v["cases"]
        ctx.count("observation_records", v["cases"])
        ctx.count("keys_compared", v["keys"] - v["unspec"])
        ctx.count("keys_unspecified", v["unspec"])
        ctx.count("ok_structures", v["ok_structs"])
        ctx.count("known_beyond_strict_confirmed_by_completions", v.get("known_beyond_strict_confirmed_by_completions", 0))
        ctx.count("prefix_series", v["mono_series"])
        ctx.count("prefix_items_tracked", v["mono_items"])
        for k, c in v["features"].items():
            feats[k] = feats.get(k, 0) + c
        for h in v["distinct"]:
            ctx.distinct.add(h)
        if v["sample"]:
            ctx.sample(v["sample"], limit=3)
        for ab in v["aborts"]:
            ctx.count("driver_aborts")
            ctx.inconclusive_cases += 1
            ctx.extra.setdefault("driver_aborts", []).append({"kind": ab["kind"], "detail": ab["detail"]})
        for x in v["viol"]:
            ctx.violation("C01:" + x["mech"], x["what"], x)
        for r in v.get("reject_reasons", []):
            ctx.extra.setdefault("generator_reject_reasons", {}).setdefault(r, 0)
            ctx.extra["generator_reject_reasons"][r] += 1
    ctx.extra["presence_observations"] = feats
    ctx.rule = ("case = (generated module, structure, parameter values, byte string) -> one observation record compared key by "
                "key with the reference interpreter; every 4th base buffer is also observed at every prefix length 0..n+2 "
                "(prefix-monotonicity); distinct_nontrivial = distinct (module, structure, Ok, IsComplete, presence pattern)")
    ctx.assumptions = ["vlib/refsem.py is the reading of doc/language-reference.md; UNSPEC where the documents are silent "
                       "(clipped array counts, size knowledge that depends on unreadable conditions)",
                       "spec renderer vlib/embspec.py", "clang++-14 ASan/UBSan"]
    return ctx.finish(min_evals=nmod * ncases // 3, require=("modules_built", "keys_compared", "ok_structures",
                                                             "prefix_series"))


def replay(path):
    common.repo_on_path()
    from vlib import embc
    with open(path) as f:
        rp = json.load(f)["replay"]
    m, text = cppsuite.regen(rp["coords"])
    ir, _d, errors = embc.parse({"m.emb": text})
    if errors:
        print("module is rejected now")
        return 0
    hdr, _e = embc.header(ir)
    s = m.struct(rp["struct"])
    tops = [x for x in m.structs if x.kind == "struct"]
    with common.Scratch("c01r") as d:
        built = cppsuite.Built(d, {"m": m, "header": hdr})
        b = built.build("obs")
        if b is None:
            print("VIOLATION property=C01 replay=%s\n  driver does not compile" % path)
            return 1
        data = bytes.fromhex(rp["data"])
        bad = 0
        for L in sorted(set([len(data)] + list(range(len(data) + 1)))):
            line = "r obs %d %d %s %s" % (tops.index(s), len(rp["params"]), " ".join(map(str, rp["params"])), data[:L].hex() or "-")
            res, fails = cppsuite.run_all(b, [line])
            if fails or "r" not in res:
                print("driver aborted:", fails and cppdrv.summarize_report(fails[0]))
                bad += 1
                continue
            model = observe.observe(m, s.name, cppsuite.pdict(s, rp["params"]), data[:L])
            diffs = observe.compare(model, res["r"])
            if diffs:
                diffs, _exc = observe.reconcile(m, s.name, cppsuite.pdict(s, rp["params"]), data[:L], diffs,
                                                common.case_rng(0, "c01-completion", L), actual=res["r"])
            if diffs:
                bad += 1
                print("len %d: %s" % (L, diffs[:6]))
    if bad:
        print("VIOLATION property=C01 replay=%s" % path)
        return 1
    print("no difference on replay")
    return 0
