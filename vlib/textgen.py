"""Text-level workload generators: corpus, random strings, token soup,
line/token/byte mutators.  Seeded; standard library only."""

import glob
import os
import re

from vlib import common

_CORPUS = None


def corpus():
    """[(relative name, text)] of every .emb under the repository plus the
    ```emb examples of the documentation."""
    global _CORPUS
    if _CORPUS is None:
        out = []
        for path in sorted(glob.glob(os.path.join(common.REPO, "**", "*.emb"), recursive=True)):
            try:
                with open(path, encoding="utf-8") as f:
                    out.append((os.path.relpath(path, common.REPO), f.read()))
            except Exception:
                pass
        for doc in ("language-reference.md", "guide.md", "text-format.md", "cpp-guide.md"):
            p = os.path.join(common.REPO, "doc", doc)
            if os.path.exists(p):
                with open(p, encoding="utf-8") as f:
                    text = f.read()
                for i, m in enumerate(re.finditer(r"```(?:emb)?\n(.*?)```", text, re.S)):
                    body = m.group(1)
                    if re.search(r"^(struct|bits|enum|external|import|\[)", body, re.M):
                        out.append(("doc/%s#%d" % (doc, i), body))
        _CORPUS = out
    return _CORPUS


KEYWORDS = ("struct bits enum external import as if let true false "
            "$default $next $max $present $upper_bound $lower_bound "
            "$size_in_bits $size_in_bytes $max_size_in_bits $max_size_in_bytes "
            "$min_size_in_bits $min_size_in_bytes $static_size_in_bits "
            "$is_statically_sized").split()
PUNCT = "[ ] ( ) : = + - * . ? == != && || < > <= >= ,".split()

_WORD_SEEDS = [
    "a", "ab", "a_b", "a1", "a_", "a__b", "abc_def_9", "structure", "struct1", "iff", "lets",
    "letx", "as_", "ass", "trueish", "falsey", "true1", "bitsy", "enumeration", "imports",
    "A", "A1", "AB", "A_", "A_1", "A1B", "AB1", "A1_", "ABC_DEF", "Ab", "AbC", "A1b", "Ab1",
    "aB", "aBc", "abcDef", "Abc_def", "ABc", "AbC_", "_a", "_A", "__", "_", "_1", "x_Y",
    "EmbossReserved", "EmbossReservedFoo", "EmbossReserved_x", "emboss_reserved",
    "emboss_reserved_x1", "emboss_reservedX", "EMBOSS_RESERVED", "EMBOSS_RESERVED_A1",
    "EMBOSS_RESERVEDx", "Emboss", "emboss", "EMBOSS", "emboss_reserve", "UInt", "Int", "Flag",
    "Foo", "FooBar", "Type2", "T", "Tt", "tT", "$max", "$maxx", "$ma", "$", "$$", "$next1",
    "$present", "a$b", "$default", "$defaults", "$size_in_bit", "$size_in_bitss", "$foo",
    "$static_size_in_bits", "$is_statically_sized", "$max_size_in_bytes_",
]
_NUM_SEEDS = [
    "0", "1", "00", "012", "123", "1234", "1_000", "1_00", "10_000", "100_000", "1000_000",
    "1_000_000", "1_000_00", "1__000", "_1", "1_", "12_345_678", "0x0", "0x", "0X1", "0xg",
    "0xabc", "0xABC", "0xaBc", "0x_1", "0x_", "0x1_", "0x1234_5678", "0x1_2345", "0x12345_6789",
    "0x1234_567", "0x12345678_9abcdef0", "0x1234_5678_9abcdef0", "0x123456789", "0x_1234_5678",
    "0x__1", "0b0", "0b", "0B1", "0b2", "0b1010", "0b1010_0101", "0b101_0101", "0b1_0101",
    "0b10100101_10100101", "0b_1", "0b_1111_0000", "0b1111_00001111", "0b12", "0xb", "0b_",
    "9a", "9_", "1e5", "1.5", "0x1.2", "1x2", "0xx1", "00x1", "0_0", "0_000", "0000_000",
]
_DOC_SEEDS = ["--", "-- doc", "--doc", "-- ", "--  two", "---", "-- -- x", "#", "# c", "#c",
              "#--", "-- # not comment", "- -", "--\t", "-- \t"]
_STR_SEEDS = ['""', '"a"', '"a b"', '"\\n"', '"\\\\"', '"\\""', '"\\t"', '"unterminated',
              '"a\\"', '"a""b"', '"#"', '"--"', '"é"']
_WS = [" ", "  ", "\t", "   ", " \t", "", ""]
TERMINATORS = ["\n", "\r\n", "\r", "\x0b", "\x0c", "\x1c", "\x1d", "\x1e", "\x85", " ", " "]
_ODD = ["@", "!", "&", "|", "~", "`", "'", "{", "}", ";", "%", "^", "/", "\\", "é", "λ", " ",
        "　", "\x00", "\x7f", "０", "١"]


def rand_word(rng):
    r = rng.random()
    if r < 0.45:
        return rng.choice(_WORD_SEEDS)
    if r < 0.6:
        return rng.choice(KEYWORDS)
    alphabet = rng.choice(["abc_019", "ABC_019", "abABC019", "aA_0$", "abcdefxyz", "ABCXYZ_"])
    return "".join(rng.choice(alphabet) for _ in range(rng.randint(1, 8)))


def rand_number(rng):
    r = rng.random()
    if r < 0.5:
        return rng.choice(_NUM_SEEDS)
    prefix = rng.choice(["", "", "0x", "0b", "0x_", "0b_", "0X"])
    digits = {"": "0123456789", "0x": "0123456789abcdefABCDEF", "0b": "01", "0x_": "09afAF",
              "0b_": "01", "0X": "01aF"}[prefix]
    groups = []
    gs = rng.choice([3, 4, 8, rng.randint(1, 9)])
    for i in range(rng.randint(1, 4)):
        n = gs if (i and rng.random() < 0.85) else rng.randint(1, gs + (rng.random() < 0.1))
        groups.append("".join(rng.choice(digits) for _ in range(n)))
    return prefix + rng.choice(["_", "_", "_", "", "__"]).join(groups)


def rand_atom(rng):
    r = rng.random()
    if r < 0.30:
        return rand_word(rng)
    if r < 0.50:
        return rand_number(rng)
    if r < 0.72:
        return rng.choice(PUNCT)
    if r < 0.80:
        return rng.choice(_STR_SEEDS)
    if r < 0.86:
        return rng.choice(_DOC_SEEDS)
    if r < 0.90:
        return rng.choice(_ODD)
    return rng.choice(KEYWORDS)


def soup_line(rng, max_atoms=8):
    parts = []
    for _ in range(rng.randint(0, max_atoms)):
        parts.append(rand_atom(rng))
        parts.append(rng.choice(_WS))
    return "".join(parts)


def rand_indent(rng):
    r = rng.random()
    if r < 0.4:
        return " " * rng.choice([0, 0, 1, 2, 2, 3, 4, 4, 6, 8])
    if r < 0.5:
        return "\t" * rng.randint(1, 2)
    if r < 0.56:
        return rng.choice([" \t", "\t ", "  \t", " ", " 　", "\x1f", " \x1f"])
    return " " * (2 * rng.randint(0, 4))


def token_soup(rng, max_lines=10):
    """Lines of glued atoms with structured-ish indentation and mixed line
    terminators."""
    lines = []
    terms = ["\n"] if rng.random() < 0.7 else TERMINATORS
    depth_stack = [""]
    for _ in range(rng.randint(0, max_lines)):
        r = rng.random()
        if r < 0.5:
            ind = depth_stack[-1]
        elif r < 0.7:
            ind = depth_stack[-1] + rng.choice([" ", "  ", "    ", "\t"])
            depth_stack.append(ind)
        elif r < 0.9 and len(depth_stack) > 1:
            for _k in range(rng.randint(1, len(depth_stack) - 1)):
                depth_stack.pop()
            ind = depth_stack[-1]
        else:
            ind = rand_indent(rng)
        k = rng.random()
        if k < 0.12:
            body = ""
        elif k < 0.2:
            body = rng.choice(["# comment", "#", "#x", "   ", "\t"])
        else:
            body = soup_line(rng)
        lines.append(ind + body + rng.choice(["", "", "", " ", "  # c", " #", "\t"]))
    text = "".join(l + rng.choice(terms) for l in lines)
    if lines and rng.random() < 0.3:
        text = text[:-1] if text.endswith("\n") else text
    return text


def random_chars(rng, n=None):
    n = n if n is not None else rng.randint(0, 60)
    alphabet = rng.choice([
        "abcXYZ019_$ \n\t[]():=+-*.?!&|<>,#\"\\",
        "ab \n  --#\"",
        "01xb_9aF \n",
        "AZaz_09 \n\r\x0b\x0c\x85 ",
        "".join(_ODD) + "ab1 \n",
    ])
    return "".join(rng.choice(alphabet) for _ in range(n))


def mutate_text(rng, text, n=None):
    """Byte/token/line-level mutations."""
    n = n if n is not None else rng.randint(1, 3)
    for _ in range(n):
        r = rng.random()
        if not text:
            text = rand_atom(rng)
            continue
        if r < 0.25:  # char-level
            i = rng.randrange(len(text))
            op = rng.random()
            ch = rng.choice("abAB01_$ \n\t[]():=+-*.?<>,#\"" + "".join(_ODD[:6]))
            if op < 0.34:
                text = text[:i] + text[i + 1:]
            elif op < 0.67:
                text = text[:i] + ch + text[i:]
            else:
                text = text[:i] + ch + text[i + 1:]
        elif r < 0.6:  # token-level
            toks = re.findall(r"\s+|[A-Za-z_$0-9]+|\"[^\"\n]*\"|--.*|#.*|==|!=|&&|\|\||<=|>=|.", text)
            if not toks:
                continue
            i = rng.randrange(len(toks))
            op = rng.random()
            if op < 0.3:
                del toks[i]
            elif op < 0.6:
                toks.insert(i, rand_atom(rng))
            elif op < 0.8:
                toks[i] = rand_atom(rng)
            else:
                j = rng.randrange(len(toks))
                toks[i], toks[j] = toks[j], toks[i]
            text = "".join(toks)
        else:  # line-level
            lines = text.split("\n")
            i = rng.randrange(len(lines))
            op = rng.random()
            if op < 0.2:
                del lines[i]
            elif op < 0.4:
                lines.insert(i, lines[rng.randrange(len(lines))])
            elif op < 0.55:
                lines[i] = rand_indent(rng) + lines[i].lstrip()
            elif op < 0.7:
                lines[i] = lines[i] + rng.choice(["  # c", " ", " --", " -- d", "\t", " \\"])
            elif op < 0.8:
                lines = lines[:i + 1]
            elif op < 0.9:
                lines.insert(i, rng.choice(["", "  ", "# c", "    # c", "  -- doc"]))
            else:
                j = rng.randrange(len(lines))
                lines[i], lines[j] = lines[j], lines[i]
            text = "\n".join(lines)
    return text


# ---------------------------------------------------------------------------
# Semantic-level mutations: keep the text (mostly) parseable while breaking
# assumptions of later compiler passes.
# ---------------------------------------------------------------------------

EXTREME_NUMBERS = ["0", "1", "2", "7", "8", "9", "15", "16", "31", "32", "33", "63", "64", "65", "128",
                   "255", "256", "2147483647", "2147483648", "4294967295", "4294967296",
                   "9223372036854775807", "9223372036854775808", "18446744073709551615",
                   "18446744073709551616", "340282366920938463463374607431768211456",
                   "0x7fff_ffff_ffff_ffff", "0xffff_ffff_ffff_ffff", "0b1", "1_000_000"]
BUILTIN_EXPRS = ["$next", "$size_in_bytes", "$size_in_bits", "$max_size_in_bytes", "$min_size_in_bytes",
                 "$max_size_in_bits", "$min_size_in_bits", "$is_statically_sized", "$static_size_in_bits",
                 "$default", "$present(x)", "$max(1, 2)", "$max()", "$upper_bound(x)", "$lower_bound(0)",
                 "true", "false", "this", "$present()"]
PRELUDE_TYPES = ["UInt", "Int", "Flag", "Bcd", "Float", "UInt:8", "Int:16", "UInt:64", "Int:64", "UInt:65",
                 "UInt:0", "Float:32", "Float:33", "Bcd:4", "Flag:2", "UInt[]", "UInt:8[]", "UInt:8[4]",
                 "UInt:8[2][3]", "UInt:8[][2]", "Foo", "Foo(1)", "Foo(x, y)", "Foo()"]
ATTRS = ['[requires: this > 0]', '[requires: true]', '[requires: 1]', '[requires: x == 1]',
         '[byte_order: "BigEndian"]', '[byte_order: "LittleEndian"]', '[byte_order: "Null"]',
         '[byte_order: "Middle"]', '[byte_order: 1]', '[$default byte_order: "LittleEndian"]',
         '[text_output: "Skip"]', '[text_output: "Emit"]', '[text_output: "Foo"]',
         '[(cpp) namespace: "a::b"]', '[(cpp) namespace: ""]', '[(cpp) enum_case: "kCamelCase"]',
         '[(cpp) enum_case: "SHOUTY_CASE, kCamelCase"]', '[(cpp) enum_case: "bad"]',
         '[(java) foo: 1]', '[fixed_size_in_bits: 8]', '[fixed_size_in_bits: x]', '[is_signed: true]',
         '[is_signed: 1]', '[maximum_bits: 8]', '[maximum_bits: 0]', '[maximum_bits: 65]',
         '[maximum_bits: 64]', '[static_requirements: $size_in_bits == 8]', '[addressable_unit_size: 3]',
         '[is_integer: true]', '[unknown_attr: 3]', '[requires: this]', '[$default requires: true]',
         '[requires: $next > 0]', '[byte_order: "BigEndian"] [byte_order: "BigEndian"]',
         '[can_hold_uninitialized_data: true]', '[size_in_bits: 8]']
OPERATORS = ["+", "-", "*", "==", "!=", "<", ">", "<=", ">=", "&&", "||"]


def _names(text):
    snake = sorted(set(re.findall(r"\b[a-z][a-z_0-9]*\b", text)) - set(KEYWORDS) - {"true", "false"})
    camel = sorted(set(re.findall(r"\b[A-Z][a-zA-Z0-9]*[a-z][a-zA-Z0-9]*\b", text)))
    shouty = sorted(set(re.findall(r"\b[A-Z][A-Z_0-9]*[A-Z_][A-Z_0-9]*\b", text)))
    return snake or ["x"], camel or ["Foo"], shouty or ["AA"]


def rand_expr(rng, snake, camel, shouty, depth=0):
    r = rng.random()
    if depth > 3 or r < 0.35:
        k = rng.random()
        if k < 0.35:
            return rng.choice(snake)
        if k < 0.55:
            return rng.choice(EXTREME_NUMBERS)
        if k < 0.7:
            return rng.choice(BUILTIN_EXPRS).replace("x", rng.choice(snake))
        if k < 0.8:
            return "%s.%s" % (rng.choice(camel), rng.choice(shouty))
        if k < 0.9:
            return "%s.%s" % (rng.choice(snake), rng.choice(snake + ["$size_in_bytes", "$max_size_in_bits"]))
        return "%s.%s" % (rng.choice(camel), rng.choice(snake + ["$size_in_bits", "$max_size_in_bytes"]))
    if r < 0.75:
        return "%s %s %s" % (rand_expr(rng, snake, camel, shouty, depth + 1), rng.choice(OPERATORS),
                             rand_expr(rng, snake, camel, shouty, depth + 1))
    if r < 0.85:
        return "(%s)" % rand_expr(rng, snake, camel, shouty, depth + 1)
    if r < 0.92:
        return "%s ? %s : %s" % (rand_expr(rng, snake, camel, shouty, depth + 1),
                                 rand_expr(rng, snake, camel, shouty, depth + 1),
                                 rand_expr(rng, snake, camel, shouty, depth + 1))
    fn = rng.choice(["$max", "$present", "$upper_bound", "$lower_bound"])
    args = ", ".join(rand_expr(rng, snake, camel, shouty, depth + 1) for _ in range(rng.choice([0, 1, 1, 2, 3])))
    return "%s(%s)" % (fn, args)


def deep_expr(rng, snake, n):
    """Nesting depth n (<= 40 per the property's practical bound)."""
    e = rng.choice(snake + ["1"])
    for _ in range(n):
        k = rng.random()
        if k < 0.4:
            e = "(%s + 1)" % e
        elif k < 0.6:
            e = "$max(%s, 0)" % e
        elif k < 0.8:
            e = "(%s == 0 ? 1 : %s)" % (rng.choice(snake), e)
        else:
            e = "-(%s)" % e
    return e


def semantic_mutate(rng, text, n=None):
    n = n if n is not None else rng.randint(1, 3)
    for _ in range(n):
        snake, camel, shouty = _names(text)
        lines = text.split("\n")
        r = rng.random()
        if r < 0.18:
            ms = list(re.finditer(r"\b(0x[0-9a-fA-F_]+|0b[01_]+|[0-9][0-9_]*)\b", text))
            if ms:
                m = rng.choice(ms)
                text = text[:m.start()] + rng.choice(EXTREME_NUMBERS) + text[m.end():]
        elif r < 0.36:
            ms = list(re.finditer(r"(?<![$\w])[a-z][a-z_0-9]*\b", text))
            ms = [m for m in ms if m.group(0) not in KEYWORDS and m.group(0) not in ("true", "false")]
            if ms:
                m = rng.choice(ms)
                rep = rng.choice(snake) if rng.random() < 0.6 else rng.choice(BUILTIN_EXPRS).replace("x", rng.choice(snake))
                if rng.random() < 0.15:
                    rep = rand_expr(rng, snake, camel, shouty, 2)
                text = text[:m.start()] + rep + text[m.end():]
        elif r < 0.48:
            ms = list(re.finditer(r"\b[A-Z][a-zA-Z0-9]*[a-z][a-zA-Z0-9]*(:\d+)?", text))
            if ms:
                m = rng.choice(ms)
                rep = rng.choice(camel) if rng.random() < 0.5 else rng.choice(PRELUDE_TYPES).replace("Foo", rng.choice(camel))
                text = text[:m.start()] + rep + text[m.end():]
        elif r < 0.56:
            ms = list(re.finditer(r"==|!=|<=|>=|&&|\|\||[-+*<>]", text))
            ms = [m for m in ms if not text[:m.start()].split("\n")[-1].lstrip().startswith(("#", "--"))]
            if ms:
                m = rng.choice(ms)
                text = text[:m.start()] + rng.choice(OPERATORS) + text[m.end():]
        elif r < 0.68:
            # add an attribute after a field/type line, indented one deeper than it
            idx = [i for i, l in enumerate(lines) if l.strip() and not l.strip().startswith(("#", "--", "["))]
            if idx:
                i = rng.choice(idx)
                ind = re.match(r"\s*", lines[i]).group(0)
                if rng.random() < 0.5:
                    lines.insert(i + 1, ind + "  " + rng.choice(ATTRS).replace("x", rng.choice(snake)))
                else:
                    lines[i] = lines[i] + "  " + rng.choice(ATTRS).replace("x", rng.choice(snake))
                text = "\n".join(lines)
        elif r < 0.80:
            # add a virtual field inside some struct body
            idx = [i for i, l in enumerate(lines) if re.match(r"\s+\S", l) and not l.strip().startswith(("#", "--", "["))]
            if idx:
                i = rng.choice(idx)
                ind = re.match(r"\s*", lines[i]).group(0)
                e = rand_expr(rng, snake, camel, shouty) if rng.random() < 0.8 else deep_expr(rng, snake, rng.randint(5, 40))
                kind = rng.random()
                if kind < 0.6:
                    new = "%slet %s = %s" % (ind, rng.choice(["v", "w", rng.choice(snake)]), e)
                elif kind < 0.8:
                    new = "%s%s [+%s]  %s  %s" % (ind, e, rng.choice(EXTREME_NUMBERS[:12] + [rng.choice(snake)]),
                                                  rng.choice(PRELUDE_TYPES).replace("Foo", rng.choice(camel)),
                                                  rng.choice(["zz", rng.choice(snake)]))
                else:
                    new = "%sif %s:\n%s  0 [+1]  UInt  %s" % (ind, e, ind, rng.choice(["qq", rng.choice(snake)]))
                lines.insert(i, new)
                text = "\n".join(lines)
        elif r < 0.86:
            # parameters
            idx = [i for i, l in enumerate(lines) if re.match(r"(struct|bits)\s+\w+\s*:", l.strip())]
            if idx:
                i = rng.choice(idx)
                p = rng.choice(["(p: UInt:8)", "(p: Int:64, q: UInt:1)", "(p: UInt)", "(p: Flag)", "(e: %s)" % rng.choice(camel),
                                "(p: UInt:8[4])", "(p: UInt:65)", "()", "(p: %s:8)" % rng.choice(camel)])
                lines[i] = re.sub(r"(\w)\s*:", lambda m: m.group(1) + p + ":", lines[i], count=1)
                text = "\n".join(lines)
        else:
            text = mutate_text(rng, text, 1)
    return text
