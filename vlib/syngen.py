"""Grammar-driven sentence generator: random derivations from a production
list (by default the one published in doc/grammar.md), with depth control, and
a renderer from terminal symbols to .emb text (indentation, spacing, comments).
"""

import collections

from vlib import docgrammar, textgen


class SentenceGen(object):
    def __init__(self, start="module", prods=None):
        if prods is None:
            prods = []
            for block in docgrammar.all_production_blocks():
                prods.extend(block)
        self.start = start
        self.prods = [(l, tuple(r)) for l, r in prods]
        self.by = collections.defaultdict(list)
        for l, r in self.prods:
            self.by[l].append(r)
        self.nts = set(self.by)
        # min derivation height per nonterminal
        INF = 10 ** 9
        self.height = {n: INF for n in self.nts}
        changed = True
        while changed:
            changed = False
            for l, r in self.prods:
                h = 1 + max([self.height[s] for s in r if s in self.nts] or [0])
                if h < self.height[l]:
                    self.height[l] = h
                    changed = True
        self.used = collections.Counter()
        self.star_p = 0.6

    def _rhs_height(self, r):
        return 1 + max([self.height[s] for s in r if s in self.nts] or [0])

    def derive(self, rng, budget=12, start=None, weights=None, max_tokens=350):
        """Returns list of terminal symbols.  `budget` is the remaining
        height allowance; alternatives that cannot finish inside it are
        excluded (falling back to the shortest)."""
        out = []
        # iterative to avoid recursion limits
        stack = [(start or self.start, budget)]
        while stack:
            sym, b = stack.pop()
            if sym not in self.nts:
                out.append(sym)
                continue
            alts = self.by[sym]
            ok = [r for r in alts if self._rhs_height(r) <= b]
            if len(out) + len(stack) > max_tokens:
                ok = []
            if not ok:
                m = min(self._rhs_height(r) for r in alts)
                ok = [r for r in alts if self._rhs_height(r) == m]
            if weights:
                ws = [weights.get((sym, r), 1.0) for r in ok]
                r = rng.choices(ok, ws)[0]
            else:
                # bias: starred lists continue with probability depending on budget
                r = rng.choice(ok)
                if sym.endswith("*") and len(ok) > 1:
                    r = max(ok, key=len) if rng.random() < self.star_p else min(ok, key=len)
            self.used[(sym, r)] += 1
            for s in reversed(r):
                stack.append((s, b - 1))
        return out


SNAKE = ["a", "b", "x", "y", "field", "foo_bar", "len", "tag", "n", "size", "data", "flags2", "a_b_c"]
CAMEL = ["Foo", "Bar", "UInt", "Int", "Flag", "Baz2", "FooBar", "T1x", "Float", "Bcd", "Xy"]
SHOUTY = ["AA", "BB", "FOO", "BAR_BAZ", "V1", "X_1", "A_", "ABC2"]
NUMBERS = ["0", "1", "2", "3", "4", "7", "8", "16", "32", "64", "100", "1_000", "0x10", "0xff", "0b101",
           "0x1234_5678", "255", "65535"]
STRINGS = ['"x"', '"LittleEndian"', '"BigEndian"', '"a b"', '"\\n"', '"q\\"r"', '""', '"file.emb"']
DOCS = ["-- doc", "--", "-- more doc text", "-- x  y", "--  two spaces", "-- trailing   "]
COMMENTS = ["# c", "#", "# comment text", "#no space", "#  trailing  "]


def terminal_text(rng, sym):
    if sym.startswith('"') and sym.endswith('"') and len(sym) > 2:
        return sym[1:-1]
    return {
        "SnakeWord": lambda: rng.choice(SNAKE),
        "CamelWord": lambda: rng.choice(CAMEL),
        "ShoutyWord": lambda: rng.choice(SHOUTY),
        "Number": lambda: rng.choice(NUMBERS),
        "String": lambda: rng.choice(STRINGS),
        "BooleanConstant": lambda: rng.choice(["true", "false"]),
        "Documentation": lambda: rng.choice(DOCS),
        "Comment": lambda: rng.choice(COMMENTS),
        "BadWord": lambda: "bad$word",
        "BadNumber": lambda: "0NaN",
        "BadDocumentation": lambda: "--bad",
    }[sym]()


def render(rng, symbols, indent_unit=None, messy=True):
    """Renders terminal symbols into text that tokenizes to the same symbol
    sequence.  Returns text."""
    unit = indent_unit or rng.choice(["  ", "  ", "    ", " ", "   ", "\t"])
    lines = []
    cur = []
    depth = 0
    pending_indent = depth

    def flush():
        nonlocal cur
        if cur:
            sep_line = ""
            for i, t in enumerate(cur):
                if i:
                    sep_line += (rng.choice([" ", " ", "  ", "   "]) if messy else " ")
                sep_line += t
            trailing = rng.choice(["", "", "", " ", "  "]) if messy else ""
            lines.append(unit * depth + sep_line + trailing)
        else:
            lines.append(rng.choice(["", "", unit * depth, "  "]) if messy else "")
        cur = []

    for s in symbols:
        if s == "Indent":
            depth += 1
        elif s == "Dedent":
            depth -= 1
        elif s == '"\\n"':
            flush()
        else:
            cur.append(terminal_text(rng, s))
    if cur:
        flush()
    return "\n".join(lines) + ("\n" if lines else "")


_GEN = None


def program(rng, budget=None, messy=True):
    """Random syntactically valid program text plus its symbol list."""
    global _GEN
    if _GEN is None:
        _GEN = SentenceGen()
    budget = budget or rng.choice([9, 12, 14, 16, 20, 26, 34])
    _GEN.star_p = rng.choice([0.3, 0.5, 0.6, 0.7])
    syms = _GEN.derive(rng, budget)
    return render(rng, syms, messy=messy), syms
