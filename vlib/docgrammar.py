"""Independent reader of doc/grammar.md: the production listing and the token
pattern table.  Shares no code with compiler/front_end."""

import os
import re

from vlib import common


def _read():
    with open(os.path.join(common.REPO, "doc", "grammar.md"), encoding="utf-8") as f:
        return f.read()


def productions(text=None):
    """Returns list of (lhs, (rhs...)) from the first ```shell listing (module
    grammar), with `<empty>` as the empty rhs."""
    text = text if text is not None else _read()
    blocks = re.findall(r"```shell\n(.*?)```", text, re.S)
    result = []
    for block in blocks[:1]:
        result.extend(_parse_block(block))
    return result


def all_production_blocks(text=None):
    text = text if text is not None else _read()
    blocks = re.findall(r"```shell\n(.*?)```", text, re.S)
    return [_parse_block(b) for b in blocks]


def _split_symbols(s):
    # symbols are whitespace separated; quoted literals contain no spaces
    return s.split()


def _parse_block(block):
    prods = []
    lhs = None
    cur = None
    for line in block.split("\n"):
        if not line.strip():
            continue
        m = re.match(r"^(\S+)\s+->\s*(.*)$", line)
        if m:
            if cur is not None:
                prods.append((lhs, tuple(cur)))
            lhs = m.group(1)
            cur = _split_symbols(m.group(2))
            continue
        m = re.match(r"^\s+\|\s*(.*)$", line)
        if m:
            prods.append((lhs, tuple(cur)))
            cur = _split_symbols(m.group(1))
            continue
        cur.extend(_split_symbols(line))
    if cur is not None:
        prods.append((lhs, tuple(cur)))
    out = []
    for lhs, rhs in prods:
        if rhs == ("<empty>",):
            rhs = ()
        out.append((lhs, rhs))
    return out


def token_table(text=None):
    """Returns list of (regex_source, symbol_or_None) in table order."""
    text = text if text is not None else _read()
    rows = []
    in_table = False
    for line in text.split("\n"):
        if re.match(r"^Pattern\s+\|\s+Symbol", line):
            in_table = True
            continue
        if in_table:
            if re.match(r"^-+\s+\|\s+-+", line):
                continue
            m = re.match(r"^`(.*)`\s+\|\s+(.*?)\s*$", line)
            if not m:
                if rows:
                    break
                continue
            pat = m.group(1)
            sym = m.group(2)
            if sym.startswith("`") and sym.endswith("`"):
                sym = sym[1:-1]
            else:
                sym = None  # *no symbol emitted*
            if sym and len(sym) > 2 and sym[0] == sym[-1] == '"':
                # literal token: the pattern column is the regex-escaped
                # literal (so `\|\|` is the two-character token ||).
                literal = re.sub(r"\\(.)", r"\1", pat)
                if literal != sym[1:-1]:
                    raise ValueError("literal row %r does not match its symbol %r" % (pat, sym))
                pat = re.escape(literal)
            else:
                # regex row: `\|` is the table-escaped alternation bar.
                pat = pat.replace("\\|", "|")
            rows.append((pat, sym))
    return rows


def reserved_words(text=None):
    text = text if text is not None else _read()
    m = re.search(r"The following (\d+) keywords are reserved.*?\n\n(.*)$", text, re.S)
    words = re.findall(r"`([^`]+)`", m.group(2))
    return int(m.group(1)), words
