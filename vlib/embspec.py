"""Abstract spec of an Emboss module (own classes) + renderer to .emb text.

Expressions are tuples:
  ("num", int) ("bool", bool) ("enum", EnumName, VALUE_NAME)
  ("ref", [name, ...])            field / parameter / virtual path, or builtin
                                  names "$size_in_bytes", "$size_in_bits"
  ("op", operator, [args])        operator in + - * == != < <= > >= && || ?: $max $present
"""


class Enum(object):
    def __init__(self, name, values, is_signed=None, maximum_bits=None):
        self.name = name
        self.values = values  # [(NAME, int)]
        self.is_signed = is_signed  # explicit attribute or None
        self.maximum_bits = maximum_bits  # explicit attribute or None

    def signed(self):
        if self.is_signed is not None:
            return self.is_signed
        return any(v < 0 for _n, v in self.values)

    def max_bits(self):
        return self.maximum_bits if self.maximum_bits is not None else 64


class Type(object):
    """kind: uint int bcd flag float enum struct array.
    bits: explicit width for scalars (e.g. UInt:8) or None (sized by the field)
    ref: Enum / Struct for enum / struct kinds; args: parameter argument exprs
    elem: element Type for arrays; count: Expr or None ([])"""

    def __init__(self, kind, bits=None, ref=None, args=None, elem=None, count=None):
        self.kind = kind
        self.bits = bits
        self.ref = ref
        self.args = args or []
        self.elem = elem
        self.count = count


class Field(object):
    def __init__(self, name, kind="phys", start=None, size=None, type=None, cond=None, expr=None,
                 byte_order=None, requires=None, text_output=None, abbrev=None, anon_bits=None):
        self.name = name
        self.kind = kind  # phys | virtual | anon (anonymous bits block)
        self.start = start
        self.size = size
        self.type = type
        self.cond = cond
        self.expr = expr
        self.byte_order = byte_order
        self.requires = requires
        self.text_output = text_output
        self.abbrev = abbrev
        self.anon_bits = anon_bits  # Struct(kind="bits") for anonymous bits blocks


class Param(object):
    def __init__(self, name, kind, bits=None, enum=None):
        self.name = name
        self.kind = kind  # uint | int | enum
        self.bits = bits
        self.enum = enum


class Struct(object):
    def __init__(self, name, kind="struct", params=None, fields=None, requires=None):
        self.name = name
        self.kind = kind  # struct | bits
        self.params = params or []
        self.fields = fields or []
        self.requires = requires

    @property
    def unit(self):
        return 8 if self.kind == "struct" else 1

    def all_named_fields(self):
        """Fields as the generated view exposes them: anonymous bits members
        are hoisted."""
        out = []
        for f in self.fields:
            if f.kind == "anon":
                out.extend(f.anon_bits.fields)
            else:
                out.append(f)
        return out

    def field(self, name):
        for f in self.all_named_fields():
            if f.name == name or f.abbrev == name:
                return f
        return None


class Module(object):
    def __init__(self, byte_order="LittleEndian", enums=None, structs=None, namespace=None):
        self.byte_order = byte_order
        self.enums = enums or []
        self.structs = structs or []  # definition order; includes bits types
        self.namespace = namespace

    def struct(self, name):
        for s in self.structs:
            if s.name == name:
                return s
        return None


# ---------------------------------------------------------------------------
# Rendering
# ---------------------------------------------------------------------------

_PREC = {"?:": 1, "||": 2, "&&": 2, "==": 3, "!=": 3, "<": 3, "<=": 3, ">": 3, ">=": 3, "+": 4, "-": 4, "*": 5}


def render_expr(e, parent_prec=0):
    k = e[0]
    if k == "num":
        v = e[1]
        return str(v) if v >= 0 else "(%d)" % v if parent_prec > 0 else str(v)
    if k == "bool":
        return "true" if e[1] else "false"
    if k == "enum":
        return "%s.%s" % (e[1], e[2])
    if k == "ref":
        return ".".join(e[1])
    op, args = e[1], e[2]
    if op in ("$max", "$present", "$upper_bound", "$lower_bound"):
        return "%s(%s)" % (op, ", ".join(render_expr(a) for a in args))
    if op == "?:":
        s = "%s ? %s : %s" % (render_expr(args[0], 2), render_expr(args[1], 2), render_expr(args[2], 2))
        return "(%s)" % s if parent_prec > 0 else s
    # binary: always parenthesise nested binary operands (Emboss forbids mixing
    # some operators without parentheses)
    s = (" %s " % op).join(render_expr(a, 9) for a in args)
    return "(%s)" % s if parent_prec > 0 else s


def render_type(t):
    if t.kind == "array":
        inner = t
        dims = []
        while inner.kind == "array":
            dims.append("[%s]" % (render_expr(inner.count) if inner.count is not None else ""))
            inner = inner.elem
        # `T[a][b]` is b elements of `T[a]`: the outermost dimension is written last
        return render_type(inner) + "".join(reversed(dims))
    base = {"uint": "UInt", "int": "Int", "bcd": "Bcd", "flag": "Flag", "float": "Float"}.get(t.kind)
    if base is None:
        base = t.ref.name
        if t.args:
            base += "(%s)" % ", ".join(render_expr(a) for a in t.args)
    if t.bits is not None:
        base += ":%d" % t.bits
    return base


_EXPLICIT_ORDER = [None]  # module byte order to spell out per field while rendering a module without $default


def _order_dependent(t):
    while t is not None and t.kind == "array":
        t = t.elem
    return t is not None and (t.kind in ("uint", "int", "bcd", "float", "enum") or (t.kind == "struct" and t.ref.kind == "bits"))


def _render_attrs(f, ind, out, in_struct=False):
    order = f.byte_order
    if order is None and _EXPLICIT_ORDER[0] and in_struct and f.kind == "phys" and _order_dependent(f.type):
        # no module default: every field that needs a byte order names it; exactly-one-byte scalars need none and
        # are left bare (they are read through the runtime's NullByteOrderer)
        if not (f.type.kind != "array" and f.size == ("num", 1)):
            order = _EXPLICIT_ORDER[0]
    if order:
        out.append('%s[byte_order: "%s"]' % (ind, order))
    if f.requires is not None:
        out.append("%s[requires: %s]" % (ind, render_expr(f.requires)))
    if f.text_output:
        out.append('%s[text_output: "%s"]' % (ind, f.text_output))


def _render_field(f, ind, out, in_struct=False):
    if f.cond is not None:
        out.append("%sif %s:" % (ind, render_expr(f.cond)))
        ind += "  "
    if f.kind == "virtual":
        out.append("%slet %s = %s" % (ind, f.name, render_expr(f.expr)))
        _render_attrs(f, ind + "  ", out)
        return
    loc = "%s [+%s]" % (render_expr(f.start), render_expr(f.size))
    if f.kind == "anon":
        out.append("%s%s  bits:" % (ind, loc))
        for sf in f.anon_bits.fields:
            _render_field(sf, ind + "  ", out)
        return
    name = f.name + (" (%s)" % f.abbrev if f.abbrev else "")
    out.append("%s%s  %s  %s" % (ind, loc, render_type(f.type), name))
    _render_attrs(f, ind + "  ", out, in_struct)


def render_struct(s):
    out = []
    params = ""
    if s.params:
        ps = []
        for p in s.params:
            if p.kind == "enum":
                ps.append("%s: %s" % (p.name, p.enum.name))
            else:
                ps.append("%s: %s:%d" % (p.name, "UInt" if p.kind == "uint" else "Int", p.bits))
        params = "(%s)" % ", ".join(ps)
    out.append("%s %s%s:" % (s.kind, s.name, params))
    if s.requires is not None:
        out.append("  [requires: %s]" % render_expr(s.requires))
    if not s.fields:
        out.append("  -- empty")
    for f in s.fields:
        _render_field(f, "  ", out, s.kind == "struct")
    return out


def render_enum(e):
    out = ["enum %s:" % e.name]
    if getattr(e, "enum_case", None):
        # C++ spelling of the enumerators only: names in .emb text and in the text format stay as written
        out.append('  [(cpp) $default enum_case: "%s"]' % e.enum_case)
    if e.is_signed is not None:
        out.append("  [is_signed: %s]" % ("true" if e.is_signed else "false"))
    if e.maximum_bits is not None:
        out.append("  [maximum_bits: %d]" % e.maximum_bits)
    for n, v in e.values:
        out.append("  %s = %d" % (n, v))
    return out


def render_module(m):
    # A module may leave out `$default byte_order` when every field that needs one carries it (same meaning, other
    # code path: one-byte fields then use the Null byte order).  Multi-byte anonymous bits blocks cannot carry the
    # attribute in this renderer, so such modules keep the default.
    omit = getattr(m, "omit_default_order", False) and not any(
        f.kind == "anon" and f.size != ("num", 1) for s in m.structs for f in s.fields)
    out = [] if omit else ['[$default byte_order: "%s"]' % m.byte_order]
    _EXPLICIT_ORDER[0] = m.byte_order if omit else None
    try:
        return _render_module_body(m, out)
    finally:
        _EXPLICIT_ORDER[0] = None


def _render_module_body(m, out):
    if m.namespace:
        out.append('[(cpp) namespace: "%s"]' % m.namespace)
    out.append("")
    for e in m.enums:
        out.extend(render_enum(e))
        out.append("")
    for s in m.structs:
        out.extend(render_struct(s))
        out.append("")
    return "\n".join(out) + "\n"
