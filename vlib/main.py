"""./vcheck <id> [--tier quick|thorough] [--replay PATH]"""

import argparse
import importlib
import os
import sys
import traceback

from vlib import common


def main(argv):
    ap = argparse.ArgumentParser()
    ap.add_argument("pid")
    ap.add_argument("--tier", default=os.environ.get("VERIF_TIER") or "quick",
                    choices=["quick", "thorough"])
    ap.add_argument("--seed", type=int, default=int(os.environ.get("VERIF_SEED") or 0))
    ap.add_argument("--replay", default=None)
    ns = ap.parse_args(argv)
    pid = ns.pid.upper()
    common.repo_on_path()
    mod = importlib.import_module("vlib.checks." + pid.lower())
    if ns.replay:
        return mod.replay(ns.replay)
    ctx = common.Ctx(pid, ns.tier, ns.seed, level=getattr(mod, "LEVEL", "exploration"))
    try:
        rc = mod.run(ctx)
    except common.Inconclusive as e:
        print("INCONCLUSIVE property=%s reason=%s" % (pid, e))
        return 2
    except Exception:
        traceback.print_exc()
        print("INCONCLUSIVE property=%s reason=harness-exception" % pid)
        return 2
    return rc


if __name__ == "__main__":
    sys.exit(main(sys.argv[1:]))
