"""Shared runner for the C++-backed checks (C01, C03, C04, C06, C20): one
generated module -> header from the real compiler -> driver emitted from the
spec -> sanitizer build -> thousands of cases -> comparison with refsem."""

import os

from vlib import common, cppdrv, embc, embgen, embspec, observe, refsem
from vlib.refsem import UNKNOWN, UNSPEC, known


def gen_module(seed, tag, idx, profile=None, tries=8):
    """Returns dict(m, text, header, coords, rejected=[...]) or None."""
    rejected = []
    for t in range(tries):
        rng = common.case_rng(seed, tag, idx * 100 + t)
        m = embgen.Gen(rng, profile).gen_module()
        text = embspec.render_module(m)
        try:
            ir, _dbg, errors = embc.parse({"m.emb": text})
        except Exception as e:
            rejected.append({"try": t, "why": "crash %r" % (e,), "text": text})
            continue
        if errors:
            rejected.append({"try": t, "why": errors[0][0].message.split("\n")[0], "text": text})
            continue
        hdr, herr = embc.header(ir)
        if herr:
            rejected.append({"try": t, "why": "backend: " + herr[0][0].message.split("\n")[0], "text": text})
            continue
        import base64, pickle, zlib
        # the spec itself travels with every replay: generators evolve, (seed, index) alone would stop reproducing
        blob = base64.b64encode(zlib.compress(pickle.dumps(m, 4))).decode("ascii")
        return {"m": m, "text": text, "header": hdr, "coords": {"seed": seed, "tag": tag, "idx": idx, "try": t,
                                                               "profile": profile, "spec": blob},
                "rejected": rejected, "ir": ir}
    return {"m": None, "rejected": rejected}


def regen(coords):
    if coords.get("spec"):
        import base64, pickle, zlib
        m = pickle.loads(zlib.decompress(base64.b64decode(coords["spec"])))
        return m, embspec.render_module(m)
    rng = common.case_rng(coords["seed"], coords["tag"], coords["idx"] * 100 + coords["try"])
    m = embgen.Gen(rng, coords.get("profile")).gen_module()
    return m, embspec.render_module(m)


def rand_params(rng, s):
    out = []
    for p in s.params:
        if p.kind == "enum":
            out.append(rng.choice(p.enum.values)[1] if rng.random() < 0.85 else rng.randint(0, 9))
        elif p.kind == "uint":
            out.append(rng.choice([0, 1, 2, 3, 4, (1 << p.bits) - 1, rng.randrange(1 << p.bits)]))
        else:
            out.append(rng.choice([0, 1, -1, 2, -(1 << (p.bits - 1)), (1 << (p.bits - 1)) - 1,
                                   rng.randrange(-(1 << (p.bits - 1)), 1 << (p.bits - 1))]))
    return out


def pdict(s, params):
    return dict(zip([p.name for p in s.params], params))


def rand_buffer(rng, m, s, params, maxlen=72):
    """A buffer biased towards Ok structures, then possibly damaged."""
    k = rng.random()
    # size the buffer to the structure: its size over an all-zero 320-byte buffer is a usable estimate
    probe = refsem.view(m, s.name, pdict(s, params), bytearray(320)).size()
    if known(probe) and maxlen < probe <= 300:
        maxlen = probe + 8
    n = rng.choice([0, 1, 2, 3, 4, 6, 8, 12, 16, 24, 32, 48, maxlen])
    if k < 0.5:
        refsem.EXTREME_P[0] = 0.75 if rng.random() < 0.2 else 0.0
        try:
            data = bytearray(refsem.encode_random(m, s.name, pdict(s, params), rng, max(n, rng.choice([16, 32, 48, maxlen, maxlen]))))
        finally:
            refsem.EXTREME_P[0] = 0.0
        v = refsem.view(m, s.name, pdict(s, params), data)
        sz = v.size()
        r = rng.random()
        if known(sz) and 0 <= sz <= len(data):
            if r < 0.45:
                data = data[:sz]  # exactly complete
            elif r < 0.6 and sz > 0:
                data = data[:rng.randrange(sz)]  # truncated
            elif r < 0.75:
                data = data[:sz] + bytearray(rng.getrandbits(8) for _ in range(rng.randint(1, 3)))  # oversized
        if data and rng.random() < 0.2:
            i = rng.randrange(len(data))
            data[i] ^= 1 << rng.randrange(8)
        return bytes(data)
    if k < 0.6:
        return bytes(n)
    if k < 0.68:
        return bytes([255] * n)
    if k < 0.85:
        return bytes(rng.choice([0, 1, 2, 3, 4, 5, 8, 9, 16, 0x99, 255, rng.randrange(256)]) for _ in range(n))
    return bytes(rng.getrandbits(8) for _ in range(n))


class Built(object):
    def __init__(self, workdir, gm):
        self.workdir = workdir
        self.gm = gm
        self.bins = {}
        self.build_errors = {}
        with open(os.path.join(workdir, "m.emb.h"), "w") as f:
            f.write(gm["header"])

    def build(self, family, flavour="asan"):
        key = (family, flavour)
        if key not in self.bins:
            src = cppdrv.Emitter(self.gm["m"]).emit("m.emb.h", family)
            b, err = cppdrv.build(self.workdir, src, flavour, name="drv_" + family)
            self.bins[key] = b
            if b is None:
                self.build_errors[key] = err
        return self.bins[key]


def run_all(binary, lines, max_failures=6):
    """Runs all case lines, restarting after each sanitizer/check abort.
    Returns (results, failures)."""
    results = {}
    failures = []
    pending = list(lines)
    while pending and len(failures) <= max_failures:
        res, fail = cppdrv.run_cases(binary, pending)
        results.update(res)
        if not fail:
            break
        failures.append(fail)
        if fail["case"] is None:
            break
        ids = [l.split(" ", 1)[0] for l in pending]
        if fail["case"] not in ids:
            break
        pending = pending[ids.index(fail["case"]) + 1:]
    return results, failures


# ---------------------------------------------------------------------------
# Diff classification (known mechanisms)
# ---------------------------------------------------------------------------

def find_field(m, s, key):
    """Field spec addressed by an observation key like 'a.b[2].c.val'."""
    import re
    parts = [p for p in re.split(r"\.", key)]
    cur = s
    f = None
    for part in parts[:-1]:
        name = re.sub(r"\[\d+\]", "", part)
        f = cur.field(name) if cur is not None else None
        if f is None:
            return None
        t = f.type
        while t is not None and t.kind == "array":
            t = t.elem
        cur = t.ref if (t is not None and t.kind == "struct") else None
    return f


def enum_underlying_bits(e):
    mb = e.max_bits()
    for b in (8, 16, 32, 64):
        if mb <= b:
            return b
    return 64


def classify_obs_diffs(m, s, diffs):
    """Returns mechanism key for a list of (key, expected, got)."""
    for key, exp, got in diffs:
        if key.endswith(".val") and exp is not None and got is not None:
            f = find_field(m, s, key)
            if f is not None and f.kind == "phys":
                t = f.type
                while t.kind == "array":
                    t = t.elem
                if t.kind == "enum" and t.ref.signed():
                    try:
                        e, g = int(exp), int(got)
                    except ValueError:
                        continue
                    if e < 0 and g > 0 and (g - e) & (g - e - 1) == 0:
                        return "signed-enum-narrow-field-zero-extended"
    return "observation-differs:" + diffs[0][0].rsplit(".", 1)[-1]


def signed_enum_taint(m, s, params, data):
    """True when some present field of a signed enum that is narrower than the
    enum's C++ underlying type holds a negative value (model view): everything
    the implementation derives from it is off (known finding)."""
    from vlib.refsem import ArrayView, ScalarView, StructView

    def walk(v, depth=0):
        if depth > 4:
            return False
        for f in v.s.all_named_fields():
            if f.kind == "virtual" or v.has(f) is not True:
                continue
            fv = v.field_view(f)
            if scan(fv, depth):
                return True
        return False

    def scan(fv, depth):
        if isinstance(fv, ScalarView):
            # read side: zero-extension when the field is narrower than the underlying type; write side
            # (text read-back, copies through fields): negative values are refused whenever the field is
            # narrower than its bit container's value type, i.e. for any enum member of a `bits` block
            if fv.t.kind == "enum" and fv.t.ref.signed() and fv.is_complete() and (
                    fv.nbits < enum_underlying_bits(fv.t.ref) or isinstance(fv.store, refsem.BitStore)):
                ok, val = fv.read()
                return ok is True and val < 0
            return False
        if isinstance(fv, StructView):
            return (not fv.store.null) and walk(fv, depth + 1)
        if isinstance(fv, ArrayView):
            c = fv.count()
            if known(c):
                return any(scan(fv.element(i), depth + 1) for i in range(min(c, 6)))
        return False

    try:
        return walk(refsem.view(m, s.name, pdict(s, params), bytearray(data)))
    except Exception:
        return False


def constant_virtual_with_failing_requires(m, s, params, data, rng=None):
    """Observation-key prefixes ('a.b[1].name') of virtual fields that carry a
    [requires], whose value does not depend on any field or parameter (so the
    compiler treats them as constants) and whose value fails the [requires].
    The generated constant view ignores the attribute (known finding)."""
    import random
    from vlib.refsem import ArrayView, StructView
    rng = rng or random.Random(12345)
    found = []

    def is_constant(sv, f):
        if refsem.const_value(f.expr) is not None:
            return True
        vals = set()
        for _ in range(5):
            buf = bytearray(rng.getrandbits(8) for _ in range(max(len(data), 64)))
            refsem.COMPLETION = refsem.Completion(random.Random(rng.getrandbits(32)))
            try:
                pv = {p.name: UNKNOWN for p in sv.s.params}
                v = StructView(m, sv.s, pv, refsem.ByteStore(buf, 0, len(buf))) if sv.s.kind == "struct" else None
                if v is None:
                    return False
                vals.add(repr(v.eval(f.expr)))
            except Exception:
                return False
            finally:
                refsem.COMPLETION = None
        return len(vals) == 1

    def walk(v, prefix, depth):
        if depth > 4:
            return
        for f in v.s.all_named_fields():
            if f.kind == "virtual":
                if f.requires is not None and v.has(f) is True:
                    try:
                        val = v.eval(f.expr)
                        if known(val) and v.eval(f.requires, this=val) is not True and is_constant(v, f):
                            found.append(prefix + f.name)
                    except Exception:
                        pass
                continue
            if v.has(f) is not True:
                continue
            fv = v.field_view(f)
            if isinstance(fv, StructView) and not fv.store.null:
                walk(fv, prefix + f.name + ".", depth + 1)
            elif isinstance(fv, ArrayView):
                c = fv.count()
                if known(c):
                    for i in range(min(c, 6)):
                        e = fv.element(i)
                        if isinstance(e, StructView):
                            walk(e, "%s%s[%d]." % (prefix, f.name, i), depth + 1)

    try:
        walk(refsem.view(m, s.name, pdict(s, params), bytearray(data)), "", 0)
    except Exception:
        return []
    return found


def explained_by_ignored_requires(prefixes, diffs):
    """True when every difference is `<p>.ok 0->1`, `<p>.val appears`, or an
    enclosing structure's Ok() 0->1, for some listed prefix p."""
    if not prefixes or not diffs:
        return False
    for key, exp, got in diffs:
        ok = False
        for p in prefixes:
            if key == p + ".ok" and exp == "0" and got == "1":
                ok = True
            elif key == p + ".val" and exp is None:
                ok = True
            elif exp == "0" and got == "1" and (key == "ok" or (key.endswith(".ok") and p.startswith(key[:-2]))):
                ok = True
        if not ok:
            return False
    return True
