"""wrap(): replace a module attribute with a recording wrapper (call event
before invoking, return/raise event after, at the function boundary).  The
compiler resolves callees through module globals at call time, so this reaches
the real call sites without editing the repository."""

import collections
import functools

COUNTS = collections.Counter()
_ORIG = {}


def wrap(module, name, pre=None, post=None, on_raise=None):
    orig = getattr(module, name)
    key = (module.__name__, name)
    if key in _ORIG:
        orig = _ORIG[key]
    else:
        _ORIG[key] = orig

    @functools.wraps(orig)
    def wrapper(*args, **kwargs):
        COUNTS[key] += 1
        state = pre(*args, **kwargs) if pre else None
        try:
            result = orig(*args, **kwargs)
        except BaseException as e:
            if on_raise:
                on_raise(state, e, *args, **kwargs)
            raise
        if post:
            post(state, result, *args, **kwargs)
        return result

    wrapper.__wrapped_by_verif__ = True
    setattr(module, name, wrapper)
    return wrapper


def unwrap_all():
    import importlib
    for (modname, name), orig in _ORIG.items():
        setattr(importlib.import_module(modname), name, orig)
    _ORIG.clear()
