"""wrap(): replace a module attribute with a recording wrapper (call event
before invoking, return/raise event after, at the function boundary).  The
compiler resolves callees through module globals at call time, so this reaches
the real call sites without editing the repository."""

import collections
import functools

COUNTS = collections.Counter()
ERRORS = []  # exceptions raised by the monitors themselves (pre/post/on_raise hooks): harness faults, never verdicts
_ORIG = {}


def _hook_failed(key, which, exc):
    import traceback
    COUNTS[("monitor-error",) + key] += 1
    if len(ERRORS) < 20:
        ERRORS.append("%s.%s %s hook: %r\n%s" % (key[0], key[1], which, exc, traceback.format_exc()[-1500:]))


def wrap(module, name, pre=None, post=None, on_raise=None):
    orig = getattr(module, name)
    key = (module.__name__, name)
    if key in _ORIG:
        orig = _ORIG[key]
    else:
        _ORIG[key] = orig

    @functools.wraps(orig)
    def wrapper(*args, **kwargs):
        # A fault inside a hook must neither change what the wrapped function does for its caller nor pass for a
        # behaviour of the code under observation: it is recorded, reported by the worker and makes the run
        # inconclusive.  (Deliberate control-flow exceptions of the harness - budgets, recursion limits - pass.)
        COUNTS[key] += 1
        state = None
        if pre:
            try:
                state = pre(*args, **kwargs)
            except (RecursionError, MemoryError):
                raise
            except Exception as e:
                _hook_failed(key, "pre", e)
        try:
            result = orig(*args, **kwargs)
        except BaseException as e:
            if on_raise:
                try:
                    on_raise(state, e, *args, **kwargs)
                except (RecursionError, MemoryError):
                    pass
                except Exception as e2:
                    _hook_failed(key, "on_raise", e2)
            raise
        if post:
            try:
                post(state, result, *args, **kwargs)
            except (RecursionError, MemoryError):
                raise
            except Exception as e:
                if type(e).__name__ in ("CpuBudgetExceeded",):
                    raise
                _hook_failed(key, "post", e)
        return result

    wrapper.__wrapped_by_verif__ = True
    setattr(module, name, wrapper)
    return wrapper


def unwrap_all():
    import importlib
    for (modname, name), orig in _ORIG.items():
        setattr(importlib.import_module(modname), name, orig)
    _ORIG.clear()
