"""C++ driver emitter + build + run.  The driver is emitted from the *spec*
(names, types, nesting), not from the generated header.  One binary per module
handles thousands of cases read from a case file; every buffer is an exact-size
heap allocation, and only the checked API is used."""

import os
import re
import subprocess

from vlib import common
from vlib.embspec import Struct

PRELUDE = r'''
// injected before every include: attributable EMBOSS_CHECK failures
#include <cstdio>
#include <cstdlib>
extern void (*verif_flush_partial)();
[[noreturn]] inline void verif_check_fail(const char *kind, const char *expr, const char *file, int line) {
  if (verif_flush_partial) verif_flush_partial();
  std::fflush(stdout);
  std::fprintf(stderr, "EMBOSS_CHECK_FAILED %s %s %s:%d\n", kind, expr, file, line);
  std::fflush(stderr);
  std::_Exit(97);
}
#define EMBOSS_CHECK(x) ((x) ? (void)0 : ::verif_check_fail("CHECK", #x, __FILE__, __LINE__))
#define EMBOSS_CHECK_ABORTS true
#define EMBOSS_DCHECK(x) ((x) ? (void)0 : ::verif_check_fail("DCHECK", #x, __FILE__, __LINE__))
#define EMBOSS_DCHECK_ABORTS true
'''

COMMON = r'''
#include <cstdint>
#include <cstring>
#include <iostream>
#include <sstream>
#include <string>
#include <type_traits>
#include <vector>

static std::ostringstream *g_out;
void (*verif_flush_partial)() = nullptr;
static void flush_partial_record() { if (g_out) { std::cout << g_out->str() << "#PARTIAL" << std::endl; } }
static inline void put(const std::string &k, const std::string &v) { (*g_out) << k << "=" << v << "\n"; }
static inline void putb(const std::string &k, bool v) { put(k, v ? "1" : "0"); }

template <class T, class = void> struct ValStr;
template <class T> struct ValStr<T, typename std::enable_if<std::is_same<T, bool>::value>::type> {
  static std::string s(T v) { return v ? "1" : "0"; } };
template <class T> struct ValStr<T, typename std::enable_if<std::is_integral<T>::value && !std::is_same<T, bool>::value>::type> {
  static std::string s(T v) {
    return std::is_signed<T>::value ? std::to_string(static_cast<long long>(v))
                                    : std::to_string(static_cast<unsigned long long>(v)); } };
template <class T> struct ValStr<T, typename std::enable_if<std::is_enum<T>::value>::type> {
  static std::string s(T v) { typedef typename std::underlying_type<T>::type U; return ValStr<U>::s(static_cast<U>(v)); } };
template <class T> struct ValStr<T, typename std::enable_if<std::is_floating_point<T>::value>::type> {
  static std::string s(T v) {
    unsigned long long bits = 0;
    if (sizeof(T) == 4) { std::uint32_t b; std::memcpy(&b, &v, 4); bits = b; } else { std::uint64_t b; std::memcpy(&b, &v, 8); bits = b; }
    return std::to_string(bits); } };
template <class T> static inline std::string valstr(T v) { return ValStr<T>::s(v); }

template <class M> static inline std::string maybe3(const M &m) { return m.Known() ? (m.Value() ? "1" : "0") : "U"; }

static std::vector<unsigned char> unhex(const std::string &h) {
  std::vector<unsigned char> out;
  if (h == "-") return out;
  for (size_t i = 0; i + 1 < h.size(); i += 2) out.push_back(static_cast<unsigned char>(std::stoul(h.substr(i, 2), nullptr, 16)));
  return out;
}
static std::string tohex(const unsigned char *p, size_t n) {
  static const char *d = "0123456789abcdef";
  std::string s;
  for (size_t i = 0; i < n; ++i) { s.push_back(d[p[i] >> 4]); s.push_back(d[p[i] & 15]); }
  return s.empty() ? "-" : s;
}
static std::string unesc_hex(const std::string &h) { std::vector<unsigned char> v = unhex(h); return std::string(v.begin(), v.end()); }
// exact-size heap buffer (size 0 included)
struct Buf {
  unsigned char *p; size_t n;
  explicit Buf(const std::vector<unsigned char> &v) : p(new unsigned char[v.size()]), n(v.size()) { if (n) std::memcpy(p, v.data(), n); }
  ~Buf() { delete[] p; }
  Buf(const Buf &) = delete;
};
'''


def cpp_namespace(module):
    ns = module.namespace or "emboss_generated_code"
    return ns.strip(":")


def _is_scalar(t):
    return t.kind in ("uint", "int", "bcd", "flag", "float", "enum")


class Emitter(object):
    def __init__(self, module, elem_cap=6):
        self.m = module
        self.ns = cpp_namespace(module)
        self.cap = elem_cap
        self.lines = []
        self.dumpers = {}

    def emit_value_dump(self, t, var, key, ind, depth=0):
        """Emit code dumping the view `var` of type t under key prefix `key`
        (a C++ string expression)."""
        L = self.lines
        d = depth
        if _is_scalar(t):
            L.append("%sputb(%s + \".ok\", %s.Ok());" % (ind, key, var))
            L.append("%sif (%s.Ok()) put(%s + \".val\", valstr(%s.Read()));" % (ind, var, key, var))
        elif t.kind == "struct":
            L.append("%sdump_%s(%s, %s + \".\");" % (ind, t.ref.name, var, key))
        elif t.kind == "array":
            L.append("%s{" % ind)
            L.append("%s  putb(%s + \".ok\", %s.Ok());" % (ind, key, var))
            L.append("%s  size_t n%d_ = %s.ElementCount();" % (ind, d, var))
            L.append("%s  put(%s + \".count\", std::to_string(n%d_));" % (ind, key, d))
            L.append("%s  for (size_t i%d_ = 0; i%d_ < n%d_; ++i%d_) {" % (ind, d, d, d, d))
            L.append("%s    if (i%d_ >= %d && i%d_ + 1 < n%d_) continue;" % (ind, d, self.cap, d, d))
            L.append("%s    auto e%d_ = %s[i%d_];" % (ind, d, var, d))
            L.append("%s    std::string k%d_ = %s + \"[\" + std::to_string(i%d_) + \"]\";" % (ind, d, key, d))
            self.emit_value_dump(t.elem, "e%d_" % d, "k%d_" % d, ind + "    ", d + 1)
            L.append("%s  }" % ind)
            L.append("%s}" % ind)

    def emit_dumper(self, s):
        L = self.lines
        unit = "Bytes" if s.kind == "struct" else "Bits"
        L.append("template <class V> static void dump_%s(const V &v, const std::string &p) {" % s.name)
        L.append("  putb(p + \"ok\", v.Ok());")
        L.append("  putb(p + \"complete\", v.IsComplete());")
        L.append("  putb(p + \"size_known\", v.SizeIsKnown());")
        L.append("  if (v.SizeIsKnown()) put(p + \"size\", valstr(v.IntrinsicSizeIn%s().Read()));" % unit)
        L.append("  put(p + \"maxsize\", valstr(V::MaxSizeIn%s().Read())); put(p + \"minsize\", valstr(V::MinSizeIn%s().Read()));" % (unit, unit))
        for f in s.all_named_fields():
            L.append("  {")
            L.append("    auto h_ = v.has_%s();" % f.name)
            L.append("    put(p + \"%s.has\", maybe3(h_));" % f.name)
            L.append("    auto f_ = v.%s();" % f.name)
            if f.kind == "virtual":
                L.append("    putb(p + \"%s.ok\", f_.Ok());" % f.name)
                L.append("    if (f_.Ok()) put(p + \"%s.val\", valstr(f_.Read()));" % f.name)
            else:
                L.append("    putb(p + \"%s.complete\", f_.IsComplete());" % f.name)
                if f.type.kind == "struct":
                    L.append("    if (h_.Known() && h_.Value()) {")
                    self.emit_value_dump(f.type, "f_", "(p + \"%s\")" % f.name, "      ")
                    L.append("    } else { putb(p + \"%s.ok\", f_.Ok()); }" % f.name)
                else:
                    self.emit_value_dump(f.type, "f_", "(p + \"%s\")" % f.name, "    ")
            L.append("  }")
        L.append("}")
        L.append("")

    def param_cpp(self, p, expr):
        if p.kind == "enum":
            return "static_cast< ::%s::%s>(%s)" % (self.ns, p.enum.name, expr)
        bits = 8
        while bits < p.bits:
            bits *= 2
        return "static_cast< ::std::%sint%d_t>(%s)" % ("" if p.kind == "int" else "u", bits, expr)

    def make_view_expr(self, s, mutable=True):
        args = "".join(self.param_cpp(pp, "params[%d]" % j) + ", " for j, pp in enumerate(s.params))
        return "::%s::Make%sView(%sp, n)" % (self.ns, s.name, args)

    def tops(self):
        return [s for s in self.m.structs if s.kind == "struct"]

    def emit(self, header_name, family="obs"):
        L = self.lines = []
        L.append('#include "%s"' % header_name)
        L.append(COMMON)
        getattr(self, "emit_" + family)()
        L.append(MAIN)
        return "\n".join(L)

    # -- obs ---------------------------------------------------------------------
    def emit_obs(self):
        L = self.lines
        for s in self.m.structs:
            L.append("template <class V> static void dump_%s(const V &v, const std::string &p);" % s.name)
        for s in self.m.structs:
            self.emit_dumper(s)
        L.append("static void run_op(const std::string &op, int sidx, const std::vector<long long> &params, "
                 "const std::string &hex, std::istringstream &in) {")
        L.append("  Buf b(unhex(hex)); unsigned char *p = b.p; size_t n = b.n; (void)op; (void)in;")
        L.append("  switch (sidx) {")
        for i, s in enumerate(self.tops()):
            L.append("    case %d: { auto v = %s; dump_%s(v, \"\"); break; }" % (i, self.make_view_expr(s), s.name))
        L.append("    default: break;")
        L.append("  }")
        L.append("}")

    # -- write -------------------------------------------------------------------
    def leaf_expr(self, path):
        e = "v"
        for kind, x in path:
            e += (".%s()" % x) if kind == "f" else ("[%d]" % x)
        return e

    def emit_write(self):
        L = self.lines
        L.append("static void run_op(const std::string &op, int sidx, const std::vector<long long> &params, "
                 "const std::string &hex, std::istringstream &in) {")
        L.append("  Buf b(unhex(hex)); unsigned char *p = b.p; size_t n = b.n; (void)op;")
        L.append("  int leaf; std::string sgn, vs; in >> leaf >> sgn >> vs;")
        L.append("  long long sval = 0; unsigned long long uval = 0;")
        L.append("  if (sgn == \"s\") { sval = std::stoll(vs); uval = static_cast<unsigned long long>(sval); }")
        L.append("  else { uval = std::stoull(vs); sval = static_cast<long long>(uval); }")
        L.append("  (void)sval; (void)uval;")
        L.append("  switch (sidx) {")
        for i, s in enumerate(self.tops()):
            L.append("    case %d: {" % i)
            L.append("      auto v = %s;" % self.make_view_expr(s))
            L.append("      switch (leaf) {")
            for j, leaf in enumerate(writable_leaves(self.m, s)):
                L.append("        case %d: {" % j)
                L.append("          auto f = %s;" % self.leaf_expr(leaf["path"]))
                k = leaf["kind"]
                if k in ("uint", "int"):
                    L.append("          if (sgn == \"s\") { putb(\"could\", f.CouldWriteValue(sval)); putb(\"try\", f.TryToWrite(sval)); }")
                    L.append("          else { putb(\"could\", f.CouldWriteValue(uval)); putb(\"try\", f.TryToWrite(uval)); }")
                elif k == "vint":
                    L.append("          typedef typename decltype(f)::ValueType VT; VT x = static_cast<VT>(sval);")
                    L.append("          put(\"arg\", valstr(x)); putb(\"could\", f.CouldWriteValue(x)); putb(\"try\", f.TryToWrite(x));")
                elif k == "flag":
                    L.append("          bool x = (uval & 1) != 0; putb(\"could\", f.CouldWriteValue(x)); putb(\"try\", f.TryToWrite(x));")
                elif k == "float":
                    L.append("          typedef typename decltype(f)::ValueType FT; FT x; "
                             "if (sizeof(FT) == 4) { std::uint32_t r = static_cast<std::uint32_t>(uval); std::memcpy(&x, &r, 4); } "
                             "else { std::uint64_t r = uval; std::memcpy(&x, &r, 8); }")
                    L.append("          putb(\"could\", f.CouldWriteValue(x)); putb(\"try\", f.TryToWrite(x));")
                elif k == "enum":
                    L.append("          typedef typename decltype(f)::ValueType ET; typedef typename std::underlying_type<ET>::type UT;")
                    L.append("          ET x = static_cast<ET>(sgn == \"s\" ? static_cast<UT>(sval) : static_cast<UT>(uval));")
                    L.append("          put(\"arg\", valstr(x)); putb(\"could\", f.CouldWriteValue(x)); putb(\"try\", f.TryToWrite(x));")
                else:  # bcd
                    L.append("          typedef typename decltype(f)::ValueType VT; VT x = static_cast<VT>(uval);")
                    L.append("          put(\"arg\", valstr(x)); putb(\"could\", f.CouldWriteValue(x)); putb(\"try\", f.TryToWrite(x));")
                L.append("          put(\"buf\", tohex(p, n)); putb(\"ok\", f.Ok()); if (f.Ok()) put(\"val\", valstr(f.Read()));")
                L.append("          break; }")
            L.append("        default: break;")
            L.append("      }")
            L.append("      break; }")
        L.append("    default: break;")
        L.append("  }")
        L.append("}")


def _emit_eqcopy(self):
    L = self.lines
    L.append("static void run_op(const std::string &op, int sidx, const std::vector<long long> &params, "
             "const std::string &hex, std::istringstream &in) {")
    L.append("  std::string hexb; in >> hexb;")
    L.append("  if (op == \"ocopy\") {")
    L.append("    // overlapping views inside one exact-size allocation: src at [so, so+sl), dst at [dn, dn+dl)")
    L.append("    size_t so, sl, dn, dl; so = std::stoul(hexb); in >> sl >> dn >> dl;")
    L.append("    Buf b(unhex(hex));")
    L.append("    switch (sidx) {")
    for i, s in enumerate(self.tops()):
        args = "".join(self.param_cpp(pp, "params[%d]" % j) + ", " for j, pp in enumerate(s.params))
        L.append("      case %d: { auto src = ::%s::Make%sView(%sb.p + so, sl); auto dst = ::%s::Make%sView(%sb.p + dn, dl);" % (
            i, self.ns, s.name, args, self.ns, s.name, args))
        L.append("        putb(\"src_ok\", src.Ok()); putb(\"copied\", dst.TryToCopyFrom(src)); put(\"all\", tohex(b.p, b.n)); break; }")
    L.append("      default: break;")
    L.append("    }")
    L.append("    return;")
    L.append("  }")
    L.append("  Buf ba(unhex(hex)); Buf bb(unhex(hexb));")
    L.append("  switch (sidx) {")
    for i, s in enumerate(self.tops()):
        args = "".join(self.param_cpp(pp, "params[%d]" % j) + ", " for j, pp in enumerate(s.params))
        L.append("    case %d: {" % i)
        L.append("      auto a = ::%s::Make%sView(%sba.p, ba.n); auto b = ::%s::Make%sView(%sbb.p, bb.n);" % (
            self.ns, s.name, args, self.ns, s.name, args))
        L.append("      putb(\"a_ok\", a.Ok()); putb(\"b_ok\", b.Ok());")
        L.append("      if (op == \"eq\") {")
        L.append("        if (a.Ok() && b.Ok()) { putb(\"eq_ab\", a.Equals(b)); putb(\"eq_ba\", b.Equals(a)); }")
        L.append("      } else {")
        L.append("        // copy a -> b")
        L.append("        putb(\"copied\", b.TryToCopyFrom(a)); put(\"dst\", tohex(bb.p, bb.n)); put(\"src\", tohex(ba.p, ba.n));")
        L.append("        putb(\"dst_ok\", b.Ok()); if (a.Ok() && b.Ok()) putb(\"dst_eq_src\", b.Equals(a));")
        L.append("      }")
        L.append("      break; }")
    L.append("    default: break;")
    L.append("  }")
    L.append("}")


Emitter.emit_eqcopy = _emit_eqcopy

TEXT_OPTION_SETS = []
for _base in (10, 16, 2):
    for _grp in (False, True):
        for _ml, _cm in ((True, False), (True, True), (False, False)):
            TEXT_OPTION_SETS.append({"base": _base, "grouping": _grp, "multiline": _ml, "comments": _cm})


def _emit_text(self):
    L = self.lines
    L.append("static std::string esc(const std::string &s) { std::string o; for (char c : s) { if (c == '\\n') o += \"\\\\n\"; "
             "else if (c == '\\\\') o += \"\\\\\\\\\"; else o.push_back(c); } return o; }")
    L.append("static ::emboss::TextOutputOptions opts(int k) {")
    L.append("  static const int base[] = {%s};" % ", ".join(str(o["base"]) for o in TEXT_OPTION_SETS))
    L.append("  static const bool grp[] = {%s};" % ", ".join("true" if o["grouping"] else "false" for o in TEXT_OPTION_SETS))
    L.append("  static const bool ml[] = {%s};" % ", ".join("true" if o["multiline"] else "false" for o in TEXT_OPTION_SETS))
    L.append("  static const bool cm[] = {%s};" % ", ".join("true" if o["comments"] else "false" for o in TEXT_OPTION_SETS))
    L.append("  auto o = ::emboss::TextOutputOptions().WithNumericBase(static_cast<std::uint8_t>(base[k])).WithDigitGrouping(grp[k])"
             ".WithComments(cm[k]);")
    L.append("  if (ml[k]) o = o.Multiline(true).WithIndent(\"  \");")
    L.append("  return o;")
    L.append("}")
    L.append("static void run_op(const std::string &op, int sidx, const std::vector<long long> &params, "
             "const std::string &hex, std::istringstream &in) {")
    L.append("  Buf b(unhex(hex)); unsigned char *p = b.p; size_t n = b.n;")
    L.append("  int k; in >> k; std::string extra; in >> extra;")
    L.append("  switch (sidx) {")
    for i, s in enumerate(self.tops()):
        args = "".join(self.param_cpp(pp, "params[%d]" % j) + ", " for j, pp in enumerate(s.params))
        L.append("    case %d: {" % i)
        L.append("      auto v = %s;" % self.make_view_expr(s))
        L.append("      putb(\"ok\", v.Ok());")
        L.append("      if (op == \"text\" && v.Ok()) {")
        L.append("        std::string s = ::emboss::WriteToString(v, opts(k));")
        L.append("        std::vector<unsigned char> zeros(n, 0); Buf z(zeros);")
        L.append("        auto v2 = ::%s::Make%sView(%sz.p, z.n);" % (self.ns, s.name, args))
        L.append("        bool rd = ::emboss::UpdateFromText(v2, s);")
        L.append("        put(\"text\", esc(s)); putb(\"read\", rd); putb(\"v2ok\", v2.Ok());")
        L.append("        if (rd && v2.Ok()) { std::string s2 = ::emboss::WriteToString(v2, opts(k)); putb(\"same\", s2 == s); "
                 "if (s2 != s) put(\"text2\", esc(s2)); }")
        L.append("        put(\"z\", tohex(z.p, z.n));")
        L.append("      } else if (op == \"ptext\") {")
        L.append("        // partial output on any view (checked API), then feed arbitrary text back")
        L.append("        std::string s = ::emboss::WriteToString(v, opts(k).WithAllowPartialOutput(true));")
        L.append("        put(\"text\", esc(s));")
        L.append("        std::string t = unesc_hex(extra);")
        L.append("        putb(\"read\", ::emboss::UpdateFromText(v, t)); put(\"after\", tohex(p, n));")
        L.append("      }")
        L.append("      break; }")
    L.append("    default: break;")
    L.append("  }")
    L.append("}")


Emitter.emit_text = _emit_text


def _writable_virtual(s, f):
    """(target field name, a, b) with v = a*target + b (a in +1/-1) when f is
    an alias or add/subtract transform of a writable field of the same
    structure, else None."""
    e = f.expr
    if f.cond is not None or f.requires is not None:
        return None
    if e[0] == "ref" and len(e[1]) == 1:
        inner = _target_of(s, e[1][0])
        return inner
    return _linear(s, e)


def _linear(s, e):
    """(target, a, b) with value(e) = a*target + b for expressions built from
    one reference to a writable field, integer constants, + and - (nested to
    any depth: the compiler inverts each level), else None."""
    if e[0] == "ref" and len(e[1]) == 1:
        return _target_of(s, e[1][0])
    if e[0] == "op" and e[1] in ("+", "-") and len(e[2]) == 2:
        x, y = e[2]
        if y[0] == "num":
            t = _linear(s, x)
            if t:
                return (t[0], t[1], t[2] + (y[1] if e[1] == "+" else -y[1]))
        if x[0] == "num":
            t = _linear(s, y)
            if t:
                if e[1] == "+":
                    return (t[0], t[1], t[2] + x[1])
                return (t[0], -t[1], x[1] - t[2])
    return None


def _alias_chain_is_pure(s, f):
    while f is not None and f.kind == "virtual":
        if not (f.expr[0] == "ref" and len(f.expr[1]) == 1):
            return False
        f = s.field(f.expr[1][0])
    return f is not None


def _target_of(s, name):
    g = s.field(name)
    if g is None:
        return None  # a parameter: read-only
    if g.kind == "virtual":
        return _writable_virtual(s, g)
    if g.kind == "phys" and g.type.kind in ("uint", "int", "bcd") and g.cond is None:
        return (g.name, 1, 0)
    return None


def writable_leaves(module, s, depth=0, prefix=()):
    """Writable scalar leaves reachable from a view of s: list of
    {path, kind, field?}.  Shared by the driver emitter and the model."""
    out = []
    for f in s.all_named_fields():
        if f.kind == "virtual":
            t = _writable_virtual(s, f)
            if t is not None and depth == 0:
                tgt = s.field(t[0])
                pure_alias = f.expr[0] == "ref" and t[1] == 1 and t[2] == 0 and _alias_chain_is_pure(s, f)
                out.append({"path": prefix + (("f", f.name),), "kind": tgt.type.kind if pure_alias else "vint",
                            "virtual": t, "target_kind": tgt.type.kind})
            continue
        t = f.type
        path = prefix + (("f", f.name),)
        if _is_scalar(t):
            out.append({"path": path, "kind": t.kind})
        elif t.kind == "struct" and depth < 2:
            out.extend(writable_leaves(module, t.ref, depth + 1, path))
        elif t.kind == "array":
            et = t.elem
            for i in (0, 1):
                if _is_scalar(et):
                    out.append({"path": path + (("i", i),), "kind": et.kind})
                elif et.kind == "struct" and depth < 1:
                    out.extend(writable_leaves(module, et.ref, depth + 2, path + (("i", i),)))
    return out[:60] if depth == 0 else out


MAIN = r'''
int main(int argc, char **argv) {
  std::ios::sync_with_stdio(false);
  verif_flush_partial = &flush_partial_record;
  std::string line;
  while (std::getline(std::cin, line)) {
    if (line.empty()) continue;
    std::istringstream in(line);
    std::string id, op, hex;
    int sidx, np;
    in >> id >> op >> sidx >> np;
    std::vector<long long> params;
    for (int i = 0; i < np; ++i) { long long x; in >> x; params.push_back(x); }
    in >> hex;
    std::ostringstream out;
    g_out = &out;
    // announce the case first so that a sanitizer abort is attributable
    std::cout << "#CASE " << id << std::endl;
    run_op(op, sidx, params, hex, in);
    std::cout << out.str() << "#END " << id << std::endl;
  }
  return 0;
}
'''


FLAVOURS = {
    "asan": ["clang++-14", "-std=c++11", "-O1", "-g", "-fsanitize=address,undefined", "-fno-sanitize-recover=all",
             "-fno-omit-frame-pointer"],
    "asan-portable": ["clang++-14", "-std=c++11", "-O1", "-g", "-fsanitize=address,undefined",
                      "-fno-sanitize-recover=all", "-fno-omit-frame-pointer", "-DEMBOSS_NO_OPTIMIZATIONS"],
    "gcc": ["g++-12", "-std=c++11", "-O2"],
    "plain": ["clang++-14", "-std=c++11", "-O0"],
    "gcc0": ["g++-12", "-std=c++11", "-O0"],
}

RUN_ENV = {"ASAN_OPTIONS": "detect_leaks=0:abort_on_error=0:exitcode=98:allocator_may_return_null=1",
           "UBSAN_OPTIONS": "halt_on_error=1:print_stacktrace=1:exitcode=99"}


def build(workdir, driver_src, flavour="asan", name="drv", extra=None, timeout=900):
    """Returns (binary_path or None, compiler stderr)."""
    src = os.path.join(workdir, name + ".cc")
    with open(src, "w") as f:
        f.write(driver_src)
    pre = os.path.join(workdir, "verif_prelude.h")
    if not os.path.exists(pre):
        with open(pre, "w") as f:
            f.write(PRELUDE)
    out = os.path.join(workdir, name + "-" + flavour)
    cmd = FLAVOURS[flavour] + ["-include", pre, "-I", common.REPO, "-I", workdir, src, "-o", out] + (extra or [])
    # compiler temporaries go into the scratch directory too (a killed compile would otherwise leave them in /tmp)
    r = subprocess.run(cmd, capture_output=True, text=True, timeout=timeout, env=dict(os.environ, TMPDIR=workdir))
    if r.returncode != 0:
        return None, r.stderr
    return out, r.stderr


def run_cases(binary, case_lines, timeout=600):
    """Feeds case lines; returns (dict id -> dict key->value, failure or None).
    failure = {"kind", "case", "report"} for a sanitizer / check abort."""
    inp = "\n".join(case_lines) + "\n"
    env = dict(os.environ)
    env.update(RUN_ENV)
    try:
        r = subprocess.run([binary], input=inp, capture_output=True, text=True, timeout=timeout, env=env, errors="replace")
    except subprocess.TimeoutExpired:
        return {}, {"kind": "timeout", "case": None, "report": ""}
    results = {}
    cur = None
    cur_id = None
    last_started = None
    for line in r.stdout.split("\n"):
        if line.startswith("#CASE "):
            cur_id = line[6:].strip()
            last_started = cur_id
            cur = {}
        elif line.startswith("#END "):
            results[cur_id] = cur
            cur = None
            last_started = None
        elif line.startswith("#PARTIAL") and cur is not None:
            cur["#partial"] = "1"
            results[cur_id] = cur
            cur = None
        elif cur is not None and "=" in line:
            k, v = line.split("=", 1)
            cur[k] = v
    failure = None
    if r.returncode != 0:
        kind = "crash"
        err = r.stderr
        if "EMBOSS_CHECK_FAILED" in err:
            kind = "emboss-check"
        elif "AddressSanitizer" in err:
            kind = "asan"
        elif "runtime error:" in err:
            kind = "ubsan"
        elif r.returncode < 0:
            kind = "signal%d" % (-r.returncode)
        failure = {"kind": kind, "case": last_started, "report": err[-6000:], "rc": r.returncode}
    return results, failure


def generated_frame(rep):
    """First stack frame inside the generated header, with structure and
    field names abstracted: e.g. 'VirtualView::CouldWriteValue'."""
    for line in rep.split("\n"):
        m = re.match(r"\s*#\d+ 0x[0-9a-f]+ in (.*) (\S+\.emb\.h):\d+", line)
        if m:
            fn = m.group(1)
            fn = re.sub(r"<[^<>]*>", "", fn)
            fn = re.sub(r"<[^<>]*>", "", fn)
            fn = re.sub(r"<[^<>]*>", "", fn)
            fn = re.sub(r"\(.*$", "", fn)
            parts = [p for p in fn.split("::") if p]
            parts = parts[-2:]
            parts = [re.sub(r"EmbossReservedVirtual\w+View", "VirtualView", p) for p in parts]
            parts = [re.sub(r"Generic\w+View", "StructView", p) for p in parts]
            if parts[0] == "VirtualView" and parts[-1] in ("CouldWriteValue", "TryToWrite", "Write", "UpdateFromTextStream"):
                # the generated TryToWrite, Write and CouldWriteValue each evaluate the same inverse-transform
                # expression (and text input is inlined into TryToWrite): one mechanism, whichever frame reports it
                return "VirtualView::<write path>"
            return "::".join(parts)
    return "?"


def summarize_report(failure):
    """Mechanism-level summary: (kind, detail) with line numbers stripped."""
    rep = failure.get("report", "")
    kind = failure["kind"]
    if kind == "emboss-check":
        m = re.search(r"EMBOSS_CHECK_FAILED (\w+) (.*) (\S+):(\d+)", rep)
        if m:
            return kind, "%s %s @%s" % (m.group(1), m.group(2)[:80], os.path.basename(m.group(3)))
    if kind == "ubsan":
        m = re.search(r"(\S+):\d+:\d+: runtime error: (.*)", rep)
        if m:
            msg = re.sub(r"-?\d+", "N", m.group(2))
            msg = re.sub(r"type '[^']+'", "type 'T'", msg)[:90]  # int / long / ...: the width of the value type, not a mechanism
            return kind, "%s @%s in %s" % (msg, os.path.basename(m.group(1)), generated_frame(rep))
    if kind == "asan":
        m = re.search(r"AddressSanitizer: (\S+)", rep)
        fr = re.findall(r"#\d+ 0x[0-9a-f]+ in (\S+) ", rep)
        fr = [x for x in fr if not x.startswith(("__asan", "__interceptor", "operator"))]
        return kind, "%s in %s" % (m.group(1) if m else "?", (fr[0][:80] if fr else "?"))
    return kind, rep.strip().split("\n")[-1][:120] if rep.strip() else ""


CANARY = r'''
#include <cstdlib>
#include <cstring>
#include <cstdio>
#include <climits>
void (*verif_flush_partial)() = nullptr;
int main(int argc, char **argv) {
  if (argc > 1 && argv[1][0] == 'a') { volatile char *p = new char[4]; volatile int i = 4; char c = p[i]; std::printf("%d\n", c); }
  if (argc > 1 && argv[1][0] == 'u') { volatile int x = INT_MAX; volatile int y = x + argc; std::printf("%d\n", y); }
  if (argc > 1 && argv[1][0] == 'c') { EMBOSS_CHECK(argc == 99); }
  return 0;
}
'''


def liveness_canary(workdir, flavour="asan"):
    """The sanitizer build must report a 1-byte heap over-read, a signed
    overflow and an EMBOSS_CHECK failure; returns (ok, detail)."""
    src = '#include "runtime/cpp/emboss_defines.h"\n' + CANARY
    b, err = build(workdir, src, flavour, name="canary")
    if b is None:
        return False, "canary does not build: " + err[-400:]
    env = dict(os.environ)
    env.update(RUN_ENV)
    got = []
    for arg, want in (("a", "AddressSanitizer"), ("u", "runtime error"), ("c", "EMBOSS_CHECK_FAILED")):
        r = subprocess.run([b, arg], capture_output=True, text=True, env=env, errors="replace")
        got.append(r.returncode != 0 and want in r.stderr)
    return all(got), "asan=%s ubsan=%s check=%s" % tuple(got)
