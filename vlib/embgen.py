"""Semantic generator: random Emboss modules that are well-formed by
construction, as vlib.embspec objects (rendered to text by embspec).

Every run-time expression is kept far inside the 64-bit gate: the integer
sources of expressions are fields / parameters of at most 16 bits (8 for
products), so no interval analysis can overflow."""

from vlib.embspec import Enum, Field, Module, Param, Struct, Type

FIELD_WORDS = ["alpha", "beta", "gamma", "delta", "omega", "kappa", "sigma", "theta", "count", "length", "tag",
               "kind", "mode", "flags", "header", "body", "tail", "crc", "seq", "addr", "data", "payload", "value",
               "level", "index", "offset_of", "extent", "x", "y", "z", "a", "b", "c", "lo", "hi", "mid", "rsvd"]
TYPE_WORDS = ["Packet", "Header", "Frame", "Record", "Block", "Chunk", "Entry", "Item", "Node", "Cell", "Unit", "Msg"]
ENUM_WORDS = ["Kind", "Mode", "Color", "Opcode", "State", "Level"]
VALUE_WORDS = ["NONE", "ONE", "TWO", "RED", "GREEN", "BLUE", "START", "STOP", "READ", "WRITE", "LOW", "HIGH", "IDLE", "BUSY"]


def num(v):
    return ("num", v)


def ref(*path):
    return ("ref", list(path))


def op(o, *args):
    return ("op", o, list(args))


class Src(object):
    """An integer-valued thing expressions may mention: path + value range."""

    def __init__(self, path, lo, hi, kind="int", enum=None):
        self.path, self.lo, self.hi, self.kind, self.enum = path, lo, hi, kind, enum


class Gen(object):
    def __init__(self, rng, profile=None):
        self.rng = rng
        self.p = dict(max_structs=4, max_fields=9, allow_params=True, allow_float=True, allow_requires=True,
                      allow_virtual=True, allow_arrays=True, allow_nested=True, allow_bits=True, allow_dynamic=True,
                      allow_cond=True, text=False)
        if profile:
            self.p.update(profile)
        self.names = set()
        self.module = None

    # -- names ----------------------------------------------------------------
    def fname(self, used, hint=None):
        r = self.rng
        for _ in range(50):
            base = hint or r.choice(FIELD_WORDS)
            n = base if r.random() < 0.5 and hint is None else "%s_%d" % (base, r.randint(0, 99))
            if r.random() < 0.1:
                n = n + "_"
            if n not in used:
                used.add(n)
                return n
        n = "f%d" % len(used)
        used.add(n)
        return n

    def tname(self, words):
        r = self.rng
        for _ in range(50):
            n = r.choice(words) + (str(r.randint(0, 9)) if r.random() < 0.5 else "") + (r.choice(["", "", "X", "Ab"]))
            if n not in self.names:
                self.names.add(n)
                return n
        n = "Gen%d" % len(self.names)
        self.names.add(n)
        return n

    # -- enums ------------------------------------------------------------------
    def gen_enum(self):
        r = self.rng
        name = self.tname(ENUM_WORDS)
        n = r.randint(2, 6)
        vals = []
        used_names = set()
        style = r.random()
        for i in range(n):
            vn = r.choice(VALUE_WORDS) + (("_%d" % r.randint(0, 9)) if r.random() < 0.4 else "")
            if vn in used_names:
                vn = "%s_V%d" % (vn, i)
            used_names.add(vn)
            if style < 0.6:
                v = i if r.random() < 0.8 else r.randint(0, 7)
            elif style < 0.8:
                v = r.choice([0, 1, 2, 3, 5, 100, 127, 200, 255])
            else:
                v = r.choice([-1, -2, 0, 1, 2, -128, 127, 3])
            vals.append((vn, v))
        signed = any(v < 0 for _n, v in vals)
        is_signed = None
        if signed:
            is_signed = True if r.random() < 0.5 else None
        elif r.random() < 0.15:
            is_signed = r.random() < 0.5
        eff_signed = is_signed if is_signed is not None else signed
        need = 1
        for _n, v in vals:
            if eff_signed:
                b = 1
                while not (-(1 << (b - 1)) <= v < (1 << (b - 1))):
                    b += 1
            else:
                b = max(1, v.bit_length())
            need = max(need, b)
        maximum_bits = None
        if r.random() < 0.4:
            maximum_bits = r.choice([need, need, 8, 16, 32, 64, need + 1])
            if maximum_bits < need:
                maximum_bits = need
            maximum_bits = min(64, maximum_bits)
        e = Enum(name, vals, is_signed, maximum_bits)
        e.enum_case = r.choice([None, None, None, "kCamelCase", "kCamelCase", "SHOUTY_CASE, kCamelCase", "kCamelCase, SHOUTY_CASE"])
        e.need_bits = need
        return e

    # -- expressions --------------------------------------------------------------
    def small_srcs(self, srcs, maxhi=255):
        return [s for s in srcs if s.kind == "int" and s.lo >= -128 and s.hi <= maxhi]

    WIDE_CONSTS = [0, 1, 2, 255, 256, 65535, 65536, 2 ** 31 - 1, 2 ** 31, 2 ** 32 - 1, 2 ** 32, 2 ** 63 - 1, 2 ** 63, 2 ** 64 - 1,
                   -1, -2, -(2 ** 31), -(2 ** 31) - 1, -(2 ** 63)]

    @staticmethod
    def gate_ok(*ranges):
        """The compiler's 64-bit rule: an operation's operands and result must all fit int64_t, or all fit uint64_t."""
        lo = min(x for x, _y in ranges)
        hi = max(y for _x, y in ranges)
        return (lo >= -(1 << 63) and hi < (1 << 63)) or (lo >= 0 and hi < (1 << 64))

    def wide_int_expr(self, srcs, depth=0):
        """(expr, lo, hi) over sources of any width (1..8-byte fields, parameters) and constants at the 2^31 / 2^32 /
        2^63 / 2^64 edges, every operation kept inside the compiler's 64-bit gate by interval arithmetic: run-time
        arithmetic in int32 / uint32 / int64 / uint64 and the casts between them."""
        r = self.rng
        ints = [s for s in srcs if s.kind == "int"]
        k = r.random()
        if depth >= 2 or not ints or k < 0.3:
            if ints and r.random() < 0.75:
                s = r.choice(ints)
                return ref(*s.path), s.lo, s.hi
            v = r.choice(self.WIDE_CONSTS)
            return num(v), v, v
        a, alo, ahi = self.wide_int_expr(srcs, depth + 1)
        b, blo, bhi = self.wide_int_expr(srcs, depth + 1)
        if k < 0.5:
            e, lo, hi = op("+", a, b), alo + blo, ahi + bhi
        elif k < 0.7:
            e, lo, hi = op("-", a, b), alo - bhi, ahi - blo
        elif k < 0.8:
            c = [alo * blo, alo * bhi, ahi * blo, ahi * bhi]
            e, lo, hi = op("*", a, b), min(c), max(c)
        elif k < 0.9:
            e, lo, hi = op("$max", a, b), max(alo, blo), max(ahi, bhi)
        else:
            c = self.bool_expr(srcs, depth + 1)
            e, lo, hi = op("?:", c, a, b), min(alo, blo), max(ahi, bhi)
        if not self.gate_ok((alo, ahi), (blo, bhi), (lo, hi)):
            return a, alo, ahi
        return e, lo, hi

    def int_expr(self, srcs, depth=0, lo_hint=0):
        """(expr, lo, hi) over small sources; result magnitude stays < 2**40."""
        r = self.rng
        if getattr(self, "wide_now", False):
            return self.wide_int_expr(srcs, depth)
        small = self.small_srcs(srcs, 65535)
        k = r.random()
        if depth >= 2 or not small or k < 0.3:
            if small and r.random() < 0.75:
                s = r.choice(small)
                return ref(*s.path), s.lo, s.hi
            v = r.choice([0, 1, 2, 3, 4, 7, 8, 10, 16, 100, 255])
            return num(v), v, v
        a, alo, ahi = self.int_expr(srcs, depth + 1)
        b, blo, bhi = self.int_expr(srcs, depth + 1)
        if k < 0.55:
            return op("+", a, b), alo + blo, ahi + bhi
        if k < 0.7:
            return op("-", a, b), alo - bhi, ahi - blo
        if k < 0.8 and max(abs(alo), abs(ahi)) <= 65535 and max(abs(blo), abs(bhi)) <= 65535:
            c = [alo * blo, alo * bhi, ahi * blo, ahi * bhi]
            return op("*", a, b), min(c), max(c)
        if k < 0.9:
            return op("$max", a, b), max(alo, blo), max(ahi, bhi)
        c = self.bool_expr(srcs, depth + 1)
        return op("?:", c, a, b), min(alo, blo), max(ahi, bhi)

    def bool_expr(self, srcs, depth=0):
        r = self.rng
        k = r.random()
        flags = [s for s in srcs if s.kind == "bool"]
        enums = [s for s in srcs if s.kind == "enum"]
        ints = self.small_srcs(srcs, 65535)
        if k < 0.2 and flags:
            return ref(*r.choice(flags).path)
        if k < 0.45 and enums:
            s = r.choice(enums)
            vn = r.choice(s.enum.values)[0]
            return op(r.choice(["==", "==", "!="]), ref(*s.path), ("enum", s.enum.name, vn))
        if k < 0.85 and getattr(self, "wide_now", False) and [x for x in srcs if x.kind == "int"]:
            # comparison of wide operands: both sides must fit one 64-bit type
            a, alo, ahi = self.wide_int_expr(srcs, depth + 1)
            b, blo, bhi = self.wide_int_expr(srcs, depth + 1) if r.random() < 0.5 else (None, 0, 0)
            if b is None:
                c = r.choice([v for v in self.WIDE_CONSTS if self.gate_ok((alo, ahi), (v, v))] or [0])
                b, blo, bhi = num(c), c, c
            if self.gate_ok((alo, ahi), (blo, bhi)):
                return op(r.choice(["==", "!=", "<", "<=", ">", ">="]), a, b)
        if k < 0.85 and ints:
            s = r.choice(ints)
            c = r.choice([0, 1, 2, 3, 4, 5, 8, 10, 100, 128])
            if depth < 2 and r.random() < 0.3:
                e, _lo, _hi = self.int_expr(srcs, depth + 1)
                return op(r.choice(["==", "!=", "<", "<=", ">", ">="]), e, num(c))
            return op(r.choice(["==", "!=", "<", "<=", ">", ">="]), ref(*s.path), num(c))
        if depth < 2 and (flags or enums or ints):
            return op(r.choice(["&&", "||"]), self.bool_expr(srcs, depth + 1), self.bool_expr(srcs, depth + 1))
        return ("bool", r.random() < 0.7)

    # -- bits types -----------------------------------------------------------------
    def gen_bits_fields(self, nbits, used, srcs, prefix=(), allow_cond=True):
        """Fields of a bits container of nbits bits.  Appends Srcs."""
        r = self.rng
        fields = []
        pos = 0
        enums = self.module.enums
        while pos < nbits and len(fields) < 8:
            remaining = nbits - pos
            k = r.random()
            if k < 0.25:
                w, t = 1, Type("flag")
            elif k < 0.55:
                w = min(remaining, r.choice([1, 2, 3, 4, 5, 7, 8, 12, 16, remaining, 24, 31, 32, 33, 40, 48, 63]))
                t = Type("uint")
            elif k < 0.7:
                w = min(remaining, r.choice([1, 2, 4, 6, 8, 9, 16, remaining, 32, 33, 40, 57]))
                t = Type("int")
            elif k < 0.8:
                w = min(remaining, r.choice([4, 8, 3, 12, 7]))
                t = Type("bcd")
            elif k < 0.84 and [b for b in getattr(self, "bits_types", []) if b.static_bits <= remaining and b.static_bits <= 32]:
                # a `bits` type inside this `bits` (at whatever bit offset we are at): nested bit blocks
                bt = r.choice([b for b in self.bits_types if b.static_bits <= remaining and b.static_bits <= 32])
                w, t = bt.static_bits, Type("struct", ref=bt)
            elif k < 0.87 and remaining >= 4:
                # an array of bit-sized elements inside the `bits`
                eb = r.choice([1, 2, 3, 4, 4, 5, 8])
                cnt = r.randint(1, max(1, min(5, remaining // eb)))
                if eb * cnt > remaining:
                    pos += 1
                    continue
                w, t = eb * cnt, Type("array", elem=Type(r.choice(["uint", "uint", "int"]), bits=eb), count=num(cnt))
            elif k < 0.93 and enums:
                e = r.choice(enums)
                w = min(remaining, e.max_bits(), r.choice([e.need_bits, e.need_bits + 1, 4, 8]))
                w = max(w, 1)
                if w < e.need_bits and r.random() < 0.8:
                    w = min(remaining, e.max_bits(), e.need_bits)
                t = Type("enum", ref=e)
            else:
                pos += r.randint(1, 3)  # gap
                continue
            if w <= 0:
                break
            start = pos
            if fields and r.random() < 0.08:
                start = max(0, pos - r.randint(1, min(pos, 4)))  # overlap
                w = min(w, nbits - start)
            name = self.fname(used)
            f = Field(name, "phys", num(start), num(w), t)
            if allow_cond and self.p["allow_cond"] and fields and r.random() < 0.12:
                c = self.bool_expr(srcs)
                f.cond = c
            fields.append(f)
            if f.cond is None:
                path = prefix + (name,)
                if t.kind == "flag":
                    srcs.append(Src(path, 0, 1, "bool"))
                elif t.kind == "uint" and w <= 16:
                    srcs.append(Src(path, 0, (1 << w) - 1))
                elif t.kind == "int" and w <= 16:
                    srcs.append(Src(path, -(1 << (w - 1)), (1 << (w - 1)) - 1))
                elif t.kind == "bcd" and w <= 12:
                    srcs.append(Src(path, 0, 10 ** (w // 4) * 2 ** (w % 4) - 1))
                elif t.kind == "enum":
                    srcs.append(Src(path, 0, 0, "enum", t.ref))
            pos = max(pos, start + w)
        return fields

    def gen_bits_type(self):
        r = self.rng
        nbits = r.choice([8, 8, 16, 16, 24, 32, 32, 40, 64])
        used = set()
        s = Struct(self.tname(["Reg", "Ctrl", "Status", "Bitfield", "Word"]), "bits")
        srcs = []
        s.fields = self.gen_bits_fields(nbits, used, srcs)
        # make sure the declared extent is nbits: last field ends at nbits
        end = max([0] + [f.start[1] + f.size[1] for f in s.fields])
        if end < nbits:
            s.fields.append(Field(self.fname(used, "top"), "phys", num(end), num(nbits - end), Type("uint")))
        if self.p["allow_virtual"] and r.random() < 0.4:
            e, _lo, _hi = self.int_expr(srcs)
            s.fields.append(Field(self.fname(used, "virt"), "virtual", expr=e))
        s.static_bits = nbits
        s.srcs = srcs
        return s

    # -- structs ----------------------------------------------------------------------
    def scalar_type(self, nbytes):
        r = self.rng
        k = r.random()
        enums = [e for e in self.module.enums if e.need_bits <= nbytes * 8 <= e.max_bits()]
        if k < 0.45:
            return Type("uint")
        if k < 0.65:
            return Type("int")
        if k < 0.75:
            return Type("bcd")
        if k < 0.85 and self.p["allow_float"] and nbytes in (4, 8):
            return Type("float")
        if enums:
            return Type("enum", ref=r.choice(enums))
        return Type("uint")

    def gen_struct(self, earlier, leaf=False):
        r = self.rng
        s = Struct(self.tname(TYPE_WORDS), "struct")
        used = set()
        srcs = []
        wsrcs = []
        fields = []
        off = 0  # constant offset so far, or None when dynamic
        dyn_off = None  # expression for the current end when dynamic
        if self.p["allow_params"] and not leaf and r.random() < 0.3:
            for _ in range(r.randint(1, 2)):
                pn = self.fname(used, r.choice(["n", "p", "width", "sel"]))
                if r.random() < 0.75 or not self.module.enums:
                    bits = r.choice([4, 8, 8, 8, 16])
                    signed = r.random() < 0.15
                    s.params.append(Param(pn, "int" if signed else "uint", bits))
                    if signed:
                        srcs.append(Src((pn,), -(1 << (bits - 1)), (1 << (bits - 1)) - 1))
                    else:
                        srcs.append(Src((pn,), 0, (1 << bits) - 1))
                else:
                    e = r.choice(self.module.enums)
                    s.params.append(Param(pn, "enum", enum=e))
                    srcs.append(Src((pn,), 0, 0, "enum", e))
        nfields = r.randint(1, self.p["max_fields"])
        fixed_structs = [t for t in earlier if getattr(t, "static_bytes", None) is not None and t.kind == "struct"
                         and not t.params]
        param_structs = [t for t in earlier if t.kind == "struct" and t.params]
        bits_types = [t for t in earlier if t.kind == "bits"]
        any_dynamic = False
        local_only = set()  # abbreviations: invisible outside this structure
        force_union = False
        if self.p.get("union_bias"):
            if leaf:
                # a leaf with a small tag that parents can switch on
                tname = self.fname(used, "tag")
                if self.module.enums and r.random() < 0.5:
                    e = r.choice([x for x in self.module.enums if x.need_bits <= 8 <= x.max_bits()] or [None])
                else:
                    e = None
                if e is not None:
                    fields.append(Field(tname, "phys", num(0), num(1), Type("enum", ref=e)))
                    srcs.append(Src((tname,), 0, 0, "enum", e))
                else:
                    fields.append(Field(tname, "phys", num(0), num(1), Type("uint")))
                    srcs.append(Src((tname,), 0, 255))
                off = 1
            else:
                cands = [t for t in fixed_structs if any(x.kind == "enum" or (x.kind == "int" and 0 <= x.lo and x.hi <= 255)
                                                         for x in getattr(t, "srcs", []))]
                if cands:
                    st = r.choice(cands)
                    for nm in ("head", "tail"):
                        n2 = self.fname(used, nm)
                        fields.append(Field(n2, "phys", num(off), num(st.static_bytes), Type("struct", ref=st)))
                        for x in st.srcs[:4]:
                            srcs.append(Src((n2,) + x.path, x.lo, x.hi, x.kind, x.enum))
                        off += st.static_bytes
                    force_union = True
        for _i in range(nfields):
            k = r.random()
            cond = None
            if self.p["allow_cond"] and fields and srcs and r.random() < 0.25:
                cond = self.bool_expr(srcs)
            # where does the field start?
            if off is not None:
                start_e = num(off)
                if any(g.kind != "virtual" for g in fields) and r.random() < 0.15 and not any_dynamic:
                    start_e = ref("$next")
                if fields and r.random() < 0.06 and off > 0:
                    start_e = num(r.randint(0, off))  # overlap / union
            else:
                start_e = dyn_off if (r.random() < 0.5 or not any(g.kind != "virtual" for g in fields)) else ref("$next")
            odd_start = False
            if self.p["allow_dynamic"] and fields and r.random() < 0.07:
                cands = [x for x in self.small_srcs(srcs, 255) if len(x.path) == 1 and x.hi - x.lo >= 8]
                if cands:
                    x = r.choice(cands)
                    # an offset that can be negative at run time (checked when the field is accessed)
                    start_e = op("-", ref(*x.path), num(r.randint(1, 4))) if r.random() < 0.7 else \
                        op("-", num(r.randint(0, 6)), ref(*x.path))
                    odd_start = True
            start_const = start_e[1] if start_e[0] == "num" else (off if start_e == ref("$next") and off is not None else None)
            small = [x for x in self.small_srcs(srcs, 255) if x.lo >= 0]

            def advance(size_const, size_e):
                nonlocal off, dyn_off, any_dynamic
                if odd_start:
                    any_dynamic = True  # no `$next` after a field at a computed offset
                    return
                if cond is not None and (size_const is None or off is None):
                    # a conditional dynamic field: following fields use explicit offsets from before it
                    if off is not None:
                        return
                if start_const is not None and size_const is not None:
                    if cond is None or r.random() < 0.5:
                        off = max(off or 0, start_const + size_const) if off is not None else None
                    return
                # dynamic extent
                any_dynamic = True
                base = start_e if start_e != ref("$next") else (num(off) if off is not None else dyn_off)
                if base is None:
                    base = num(0)
                dyn_off = op("+", base, size_e)
                off = None

            if k < 0.34 or leaf and k < 0.6:
                nbytes = r.choice([1, 1, 1, 2, 2, 3, 4, 4, 5, 6, 7, 8, 8])
                if self.wide_module and r.random() < 0.5:
                    nbytes = r.choice([4, 4, 8])  # exactly the widths of the C++ types the expressions are evaluated in
                t = self.scalar_type(nbytes)
                if t.kind == "enum" and not (t.ref.need_bits <= nbytes * 8 <= t.ref.max_bits()):
                    t = Type("uint")
                name = self.fname(used, r.choice(["count", "length", "tag", "kind", None, None, None]))
                f = Field(name, "phys", start_e, num(nbytes), t, cond)
                if r.random() < 0.15 and nbytes > 1:
                    f.byte_order = r.choice(["LittleEndian", "BigEndian"])
                if r.random() < 0.2:
                    f.abbrev = self.fname(used, name[:1] + r.choice("abcxyz"))
                if self.p["allow_requires"] and t.kind in ("uint", "int") and r.random() < 0.1:
                    f.requires = op(r.choice(["<", "<=", ">=", "!="]), ref("this"), num(r.choice([0, 1, 10, 100, 200])))
                fields.append(f)
                if cond is None:
                    nm = name
                    if f.abbrev and r.random() < 0.5:
                        nm = f.abbrev
                        local_only.add(nm)
                    if t.kind == "uint" and nbytes <= 2:
                        srcs.append(Src((nm,), 0, (1 << (8 * nbytes)) - 1))
                    elif t.kind == "int" and nbytes <= 2:
                        srcs.append(Src((nm,), -(1 << (8 * nbytes - 1)), (1 << (8 * nbytes - 1)) - 1))
                    elif t.kind == "bcd" and nbytes == 1:
                        srcs.append(Src((nm,), 0, 99))
                    elif t.kind == "enum":
                        srcs.append(Src((nm,), 0, 0, "enum", t.ref))
                    elif self.wide_module and not self.p["text"] and t.kind in ("uint", "int", "bcd"):
                        # 3..8-byte integers: mentioned only by the wide (32/64-bit) expressions
                        nb = 8 * nbytes
                        lo, hi = (0, (1 << nb) - 1) if t.kind == "uint" else (
                            (-(1 << (nb - 1)), (1 << (nb - 1)) - 1) if t.kind == "int" else (0, 10 ** (2 * nbytes) - 1))
                        wsrcs.append(Src((nm,), lo, hi))
                    else:
                        if self.p["text"] and r.random() < 0.5:
                            f.text_output = r.choice(["Skip", "Emit"] if f.requires is None else ["Emit"])  # nothing depends on it
                elif self.p["text"] and r.random() < 0.4:
                    f.text_output = r.choice(["Skip", "Emit"] if f.requires is None else ["Emit"])  # never a source
                advance(nbytes, num(nbytes))
            elif k < 0.46 and self.p["allow_bits"]:
                # anonymous bits block
                nbytes = r.choice([1, 1, 2, 2, 3, 4, 8])
                blk = Struct("", "bits")
                sub_srcs = []
                blk.fields = self.gen_bits_fields(nbytes * 8, used, sub_srcs if cond is None else [], allow_cond=cond is None)
                if not blk.fields:
                    continue
                f = Field(None, "anon", start_e, num(nbytes), None, cond, anon_bits=blk)
                fields.append(f)
                if cond is None:
                    srcs.extend(sub_srcs)
                advance(nbytes, num(nbytes))
            elif k < 0.54 and bits_types and self.p["allow_bits"]:
                bt = r.choice(bits_types)
                if bt.static_bits % 8:
                    continue
                nbytes = bt.static_bits // 8
                name = self.fname(used)
                f = Field(name, "phys", start_e, num(nbytes), Type("struct", ref=bt), cond)
                fields.append(f)
                if cond is None:
                    for x in bt.srcs:
                        srcs.append(Src((name,) + x.path, x.lo, x.hi, x.kind, x.enum))
                advance(nbytes, num(nbytes))
            elif k < 0.64 and fixed_structs and self.p["allow_nested"] and not leaf:
                st = r.choice(fixed_structs)
                name = self.fname(used, r.choice(["header", "body", "inner", None]))
                f = Field(name, "phys", start_e, num(st.static_bytes), Type("struct", ref=st), cond)
                fields.append(f)
                if cond is None:
                    for x in getattr(st, "srcs", [])[:4]:
                        srcs.append(Src((name,) + x.path, x.lo, x.hi, x.kind, x.enum))
                advance(st.static_bytes, num(st.static_bytes))
                if cond is None and off is not None and r.random() < 0.4:
                    # a second field of the same type right after (two instances of one sub-structure)
                    name2 = self.fname(used, name.split("_")[0] + "b")
                    f2 = Field(name2, "phys", num(off), num(st.static_bytes), Type("struct", ref=st), None)
                    fields.append(f2)
                    for x in getattr(st, "srcs", [])[:4]:
                        srcs.append(Src((name2,) + x.path, x.lo, x.hi, x.kind, x.enum))
                    off += st.static_bytes
            elif k < 0.72 and param_structs and self.p["allow_nested"] and not leaf and self.p["allow_dynamic"]:
                st = r.choice(param_structs)
                args = []
                okay = True
                for p in st.params:
                    if p.kind == "enum":
                        cands = [x for x in srcs if x.kind == "enum" and x.enum is p.enum]
                        if cands and r.random() < 0.6:
                            args.append(ref(*r.choice(cands).path))
                        else:
                            args.append(("enum", p.enum.name, r.choice(p.enum.values)[0]))
                    else:
                        lo, hi = (-(1 << (p.bits - 1)), (1 << (p.bits - 1)) - 1) if p.kind == "int" else (0, (1 << p.bits) - 1)
                        cands = [x for x in srcs if x.kind == "int" and lo <= x.lo and x.hi <= hi]
                        if cands and r.random() < 0.7:
                            args.append(ref(*r.choice(cands).path))
                        else:
                            args.append(num(r.randint(max(lo, 0), min(hi, 6))))
                if not okay:
                    continue
                # field size: the struct's max size when static, else a dynamic size
                sz = getattr(st, "static_bytes", None)
                if sz is None:
                    # constant locations with a conditional tail: run-time size varies, yet the compiler insists on a
                    # field of exactly the largest extent
                    from vlib import refsem as _rs
                    sz = _rs.compiler_fixed_size(st)
                name = self.fname(used, "sub")
                if sz is None and not st.is_dynamic:
                    continue
                if sz is not None:
                    f = Field(name, "phys", start_e, num(sz), Type("struct", ref=st, args=args), cond)
                    advance(sz, num(sz))
                else:
                    size_e = num(r.choice([8, 16, 24, 40]))
                    f = Field(name, "phys", start_e, size_e, Type("struct", ref=st, args=args), cond)
                    advance(size_e[1], size_e)
                fields.append(f)
            elif k < 0.86 and self.p["allow_arrays"]:
                # arrays
                ek = r.random()
                if ek < 0.7 or not fixed_structs:
                    ebytes = r.choice([1, 1, 1, 2, 2, 4, 8])
                    et = Type(r.choice(["uint", "uint", "int"]), bits=ebytes * 8)
                    if self.p["allow_float"] and ebytes in (4, 8) and r.random() < 0.5:
                        et = Type("float", bits=ebytes * 8)
                else:
                    st = r.choice(fixed_structs)
                    ebytes = st.static_bytes
                    et = Type("struct", ref=st)
                    if ebytes == 0:
                        continue
                name = self.fname(used, r.choice(["data", "payload", "items", None]))
                if small and self.p["allow_dynamic"] and r.random() < 0.55:
                    c = r.choice(small)
                    cnt = ref(*c.path)
                    size_e = cnt if ebytes == 1 else op("*", cnt, num(ebytes))
                    t = Type("array", elem=et, count=cnt if r.random() < 0.6 else None)
                    f = Field(name, "phys", start_e, size_e, t, cond)
                    fields.append(f)
                    advance(None, size_e)
                else:
                    n = r.randint(1, 5)
                    t = Type("array", elem=et, count=num(n) if r.random() < 0.7 else None)
                    if r.random() < 0.2 and ebytes <= 2:
                        m = r.randint(1, 3)
                        t = Type("array", elem=Type("array", elem=et, count=num(m)), count=num(n))
                        f = Field(name, "phys", start_e, num(n * m * ebytes), t, cond)
                        advance(n * m * ebytes, num(n * m * ebytes))
                    else:
                        f = Field(name, "phys", start_e, num(n * ebytes), t, cond)
                        advance(n * ebytes, num(n * ebytes))
                    fields.append(f)
            elif self.p["allow_virtual"] and srcs:
                name = self.fname(used, r.choice(["total", "virt", "calc", None]))
                vk = r.random()
                if self.p.get("const_bias") and r.random() < 0.5:
                    vk = 0.75  # profile: many compile-time-constant virtual fields (with conditions / [requires])
                ints = [x for x in srcs if x.kind == "int" and len(x.path) == 1]
                if vk < 0.2 and ints:
                    x = r.choice(ints)
                    f = Field(name, "virtual", expr=ref(*x.path), cond=None)  # alias
                    srcs.append(Src((name,), x.lo, x.hi))
                elif vk < 0.4 and ints:
                    x = r.choice(ints)
                    vnames = set(g.name for g in fields if g.kind == "virtual")
                    over_virtual = [y for y in ints if y.path[0] in vnames]
                    if over_virtual and r.random() < 0.4:
                        x = r.choice(over_virtual)  # `v + c` over another virtual field (writable only if that one is)
                    c = r.randint(1, 20)
                    form = r.choice(["+", "-", "c+", "c-"])
                    if form == "+":
                        e, lo, hi = op("+", ref(*x.path), num(c)), x.lo + c, x.hi + c
                    elif form == "-":
                        e, lo, hi = op("-", ref(*x.path), num(c)), x.lo - c, x.hi - c
                    elif form == "c+":
                        e, lo, hi = op("+", num(c), ref(*x.path)), x.lo + c, x.hi + c
                    else:
                        e, lo, hi = op("-", num(c), ref(*x.path)), c - x.hi, c - x.lo
                    if r.random() < 0.35:
                        # a second level: (x - 3) + 10, 100 - (x - 20), 10 + (c - x): still invertible
                        c2 = r.randint(1, 120)
                        form2 = r.choice(["+", "-", "c+", "c-"])
                        if form2 == "+":
                            e, lo, hi = op("+", e, num(c2)), lo + c2, hi + c2
                        elif form2 == "-":
                            e, lo, hi = op("-", e, num(c2)), lo - c2, hi - c2
                        elif form2 == "c+":
                            e, lo, hi = op("+", num(c2), e), lo + c2, hi + c2
                        else:
                            e, lo, hi = op("-", num(c2), e), c2 - hi, c2 - lo
                    f = Field(name, "virtual", expr=e)
                    srcs.append(Src((name,), lo, hi))
                    tgt = [g for g in fields if g.name == x.path[0] and g.kind == "virtual"]
                    if tgt and r.random() < 0.5:
                        # declared BEFORE the virtual field it is computed from (declaration order is free)
                        fields.insert(fields.index(tgt[0]), f)
                        continue
                elif vk < 0.55:
                    self.wide_now = self.wide_module and r.random() < 0.5
                    f = Field(name, "virtual", expr=self.bool_expr(srcs), cond=cond)
                    self.wide_now = False
                    if cond is None:
                        srcs.append(Src((name,), 0, 1, "bool"))
                elif vk < 0.63 and [g for g in fields if g.kind in ("phys", "virtual")]:
                    # presence of an earlier field as a value (later conditions may build on it)
                    g = r.choice([g for g in fields if g.kind in ("phys", "virtual")])
                    f = Field(name, "virtual", expr=op("$present", ref(g.name)), cond=cond)
                    if cond is None:
                        srcs.append(Src((name,), 0, 1, "bool"))
                elif vk < 0.69:
                    # the structure's own size as a value (never a source: nothing the size depends on may use it)
                    c = r.choice([0, 1, 8, 255])
                    f = Field(name, "virtual", expr=op(r.choice(["+", "-", "*"]), ref("$size_in_bytes"), num(c)) if c else ref("$size_in_bytes"))
                elif vk < 0.78:
                    v = r.choice([0, 1, 7, 255, 65536, -1, 2 ** 31, 2 ** 32, 2 ** 63 - 1, -(2 ** 63)])
                    f = Field(name, "virtual", expr=num(v))
                    if self.p["allow_cond"] and r.random() < 0.5:
                        # a constant under a condition that is itself a constant (true or false)
                        f.cond = r.choice([("bool", False), ("bool", True), op(">", op("+", num(100), num(0)), num(128)),
                                           op("<", num(1), num(2)), op("==", num(3), num(4))])
                    if self.p["allow_requires"] and r.random() < 0.55:
                        # a constant may pass or fail its own [requires]
                        f.requires = op(r.choice(["<", ">=", "!=", "=="]), ref("this"), num(r.choice([0, 5, 100, v])))
                else:
                    self.wide_now = self.wide_module and r.random() < 0.6
                    e, lo, hi = self.int_expr(srcs)
                    self.wide_now = False
                    f = Field(name, "virtual", expr=e, cond=cond)
                    if self.p["allow_requires"] and r.random() < 0.08 and cond is None:
                        f.requires = op(r.choice(["<", ">=", "!="]), ref("this"), num(r.choice([0, 5, 100])))
                    if cond is None and -70000 <= lo and hi <= 70000:
                        srcs.append(Src((name,), lo, hi))
                fields.append(f)
        if self.wide_module and self.p["allow_virtual"] and [x for x in srcs + wsrcs if x.kind == "int"]:
            srcs = srcs + wsrcs  # (a new list: the wide sources stay out of everything generated before)
            # a few more virtual fields doing 32/64-bit arithmetic and comparisons on whatever integer fields exist
            self.wide_now = True
            # one step past a source's own range: f + 1, f - 1, f + f, 0 - f, f * 2 (results needing the next wider type)
            ints = [x for x in srcs if x.kind == "int" and x.hi - x.lo > 255]
            for _ in range(r.randint(0, 2) if ints else 0):
                x = r.choice(ints)
                form = r.choice(["+1", "-1", "dbl", "neg", "x2", "+k"])
                a = ref(*x.path)
                e, lo, hi = {"+1": (op("+", a, num(1)), x.lo + 1, x.hi + 1), "-1": (op("-", a, num(1)), x.lo - 1, x.hi - 1),
                             "dbl": (op("+", a, a), 2 * x.lo, 2 * x.hi), "neg": (op("-", num(0), a), -x.hi, -x.lo),
                             "x2": (op("*", a, num(2)), 2 * x.lo, 2 * x.hi),
                             "+k": (op("+", a, num(255)), x.lo + 255, x.hi + 255)}[form]
                if self.gate_ok((x.lo, x.hi), (lo, hi), (0, 255)):
                    fields.append(Field(self.fname(used, "edge"), "virtual", expr=e))
            for _ in range(r.randint(1, 3)):
                name = self.fname(used, r.choice(["wide", "sum", "mix"]))
                if r.random() < 0.7:
                    e, lo, hi = self.wide_int_expr(srcs)
                    if e[0] == "num":
                        a, alo, ahi = self.wide_int_expr(srcs, 1)
                        b, blo, bhi = self.wide_int_expr(srcs, 1)
                        for o, (lo2, hi2) in (("+", (alo + blo, ahi + bhi)), ("-", (alo - bhi, ahi - blo))):
                            if self.gate_ok((alo, ahi), (blo, bhi), (lo2, hi2)):
                                e = op(o, a, b)
                                break
                    fields.append(Field(name, "virtual", expr=e))
                else:
                    fields.append(Field(name, "virtual", expr=self.bool_expr(srcs)))
            self.wide_now = False
        if self.p["allow_cond"] and off is not None and r.random() < (0.95 if force_union else 0.4):
            # tagged-union block: several fields guarded by `discriminant == constant`, sharing
            # discriminants (incl. the same member of two sub-structure instances) and case values
            discs = [x for x in srcs if (x.kind == "enum") or (x.kind == "int" and 0 <= x.lo and x.hi <= 255)]
            if discs:
                chosen = r.sample(discs, min(len(discs), r.randint(1, 3)))
                # prefer pairs that are the same member of two different fields
                by_tail = {}
                for x in discs:
                    if len(x.path) > 1:
                        by_tail.setdefault(x.path[1:], []).append(x)
                twins = [v for v in by_tail.values() if len(v) > 1]
                if twins and r.random() < (0.95 if force_union else 0.7):
                    chosen = r.choice(twins)[:2] + chosen[:1]
                base_off = off
                for _j in range(r.randint(2, 5)):
                    x = r.choice(chosen)
                    if x.kind == "enum":
                        c = op("==", ref(*x.path), ("enum", x.enum.name, r.choice(x.enum.values)[0]))
                    else:
                        c = op("==", ref(*x.path), num(r.choice([0, 1, 2, 3])))
                    nbytes = r.choice([1, 1, 2, 4])
                    uf = Field(self.fname(used, "alt"), "phys", num(base_off if r.random() < 0.6 else off), num(nbytes),
                               Type(r.choice(["uint", "uint", "int", "bcd"])), c)
                    if self.p["allow_requires"] and uf.type.kind in ("uint", "int") and r.random() < 0.5:
                        uf.requires = op(r.choice(["<", "<=", ">=", "!="]), ref("this"), num(r.choice([0, 1, 10, 100, 200])))
                    fields.append(uf)
                    off = max(off, uf.start[1] + nbytes) if r.random() < 0.5 else off
        if not any(f.kind != "virtual" for f in fields) and r.random() < 0.8:
            fields.insert(0, Field(self.fname(used), "phys", num(0), num(1), Type("uint")))
            srcs.append(Src((fields[0].name,), 0, 255))
        if r.random() < 0.3:
            # declaration order is free in Emboss: move some virtual fields ahead of what they mention (physical fields
            # keep their relative order, which `$next` depends on)
            virt = [f for f in fields if f.kind == "virtual"]
            for f in r.sample(virt, min(len(virt), r.randint(1, 3))):
                fields.remove(f)
                fields.insert(0 if r.random() < 0.5 else r.randrange(len(fields) + 1), f)
        s.fields = fields
        if self.p["allow_requires"] and srcs and r.random() < 0.12:
            s.requires = self.bool_expr(srcs)
        from vlib import refsem
        s.static_bytes = refsem.static_struct_size(s)
        s.srcs = [x for x in srcs if x.path[0] not in [p.name for p in s.params] and x.path[0] not in local_only]
        s.is_dynamic = s.static_bytes is None
        return s

    def gen_module(self):
        r = self.rng
        m = Module(byte_order=r.choice(["LittleEndian", "BigEndian"]))
        m.omit_default_order = r.random() < 0.25
        self.wide_module = self.p.get("wide_exprs", r.random() < 0.35)
        self.wide_now = False
        self.module = m
        if r.random() < 0.2:
            m.namespace = r.choice(["a::b", "::emb::gen", "zz", "x::y::z"])
        for _ in range(r.randint(0, 3)):
            m.enums.append(self.gen_enum())
        types = []
        if self.p["allow_bits"]:
            self.bits_types = []
            for _ in range(r.randint(0, 3)):
                bt = self.gen_bits_type()
                types.append(bt)
                self.bits_types.append(bt)
        n = r.randint(2, self.p["max_structs"])
        for i in range(n):
            types.append(self.gen_struct(types, leaf=(i == 0)))
        m.structs = types
        return m
