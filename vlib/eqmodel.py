"""Model of logical equality of two views (C20)."""

import struct as _struct

from vlib import refsem
from vlib.refsem import ArrayView, ScalarView, StructView, UNSPEC, known


class Abstain(Exception):
    pass


def _float_eq(a, b, nbits):
    fmt = "<f" if nbits == 32 else "<d"
    pk = "<I" if nbits == 32 else "<Q"
    x = _struct.unpack(fmt, _struct.pack(pk, a))[0]
    y = _struct.unpack(fmt, _struct.pack(pk, b))[0]
    return x == y  # IEEE: NaN != NaN, +0 == -0


def eq_value(a, b):
    if a is UNSPEC or b is UNSPEC:
        raise Abstain()
    if isinstance(a, ScalarView):
        oka, va = a.read()
        okb, vb = b.read()
        if oka is not True or okb is not True:
            raise Abstain()  # not reachable for Ok structures
        if a.t.kind == "float":
            return _float_eq(va, vb, a.nbits)
        return va == vb
    if isinstance(a, ArrayView):
        ca, cb = a.count(), b.count()
        if not known(ca) or not known(cb):
            raise Abstain()
        if ca != cb:
            return False
        return all(eq_value(a.element(i), b.element(i)) for i in range(ca))
    if isinstance(a, StructView):
        return eq_struct(a, b)
    raise Abstain()


def eq_struct(a, b):
    for k in a.params:
        if a.params[k] != b.params[k]:
            return False
    for f in a.s.all_named_fields():
        if f.kind == "virtual":
            continue
        ha, hb = a.has(f), b.has(f)
        if ha is UNSPEC or hb is UNSPEC:
            raise Abstain()
        if not known(ha) or not known(hb):
            return False
        if ha != hb:
            return False
        if ha and not eq_value(a.field_view(f), b.field_view(f)):
            return False
    return True


def covered_bits(v, out=None):
    """Absolute bit addresses covered by present physical scalars of an Ok view."""
    out = set() if out is None else out
    for f in v.s.all_named_fields():
        if f.kind == "virtual" or v.has(f) is not True:
            continue
        _cov(v.field_view(f), out)
    return out


def _cov(fv, out):
    if isinstance(fv, ScalarView):
        if fv.is_complete():
            out.update(fv.addrs())
    elif isinstance(fv, StructView):
        if not fv.store.null:
            covered_bits(fv, out)
    elif isinstance(fv, ArrayView):
        c = fv.count()
        if known(c):
            for i in range(c):
                _cov(fv.element(i), out)
