"""Direct runtime-header harness (no compiler in the loop): instantiates
UIntView / IntView / BcdView / FlagView / FloatView / EnumView over
OffsetBitBlock<BitBlock<{Little,Big}EndianByteOrderer<ContiguousBuffer>, C>>
for every container C in 8..64, every width and (at run time) every offset,
reads and writes with varied contents, and prints one line per observation for
the Python oracle."""

HARNESS = r'''
#include <cstdint>
#include <cstdio>
#include <cstring>
#include <string>
#include <type_traits>
#include "runtime/cpp/emboss_prelude.h"
#include "runtime/cpp/emboss_enum_view.h"
#include "runtime/cpp/emboss_view_parameters.h"
#include "runtime/cpp/emboss_memory_util.h"

#ifndef BUFALIGN
#define BUFALIGN 1
#endif
#ifndef CONTAINER
#define CONTAINER 16
#endif
#ifndef NCONTENTS
#define NCONTENTS 8
#endif

void (*verif_flush_partial)() = nullptr;
namespace es = ::emboss::support;
namespace ep = ::emboss::prelude;
typedef es::ContiguousBuffer<unsigned char, BUFALIGN, 0> BufT;
static const int C = CONTAINER;
static const int NB = CONTAINER / 8;
alignas(8) static unsigned char g_store[16];
static unsigned char *g_buf = g_store;  // 8-aligned
static std::uint64_t g_lcg = 88172645463325252ULL;
static std::uint64_t rnd() { g_lcg ^= g_lcg << 13; g_lcg ^= g_lcg >> 7; g_lcg ^= g_lcg << 17; return g_lcg; }

static void hex(char *out, const unsigned char *p, int n) {
  static const char *d = "0123456789abcdef";
  for (int i = 0; i < n; ++i) { out[2 * i] = d[p[i] >> 4]; out[2 * i + 1] = d[p[i] & 15]; }
  out[2 * n] = 0;
}

// container contents for pattern k, expressed as the logical container value
static std::uint64_t content(int k, int o, int w) {
  std::uint64_t all = C == 64 ? ~0ULL : ((1ULL << C) - 1);
  std::uint64_t field = (w == 64 ? ~0ULL : ((1ULL << w) - 1)) << o;
  switch (k) {
    case 0: return 0;
    case 1: return all;
    case 2: return 1ULL << o;                       // lsb of the field only
    case 3: return 1ULL << (o + w - 1);             // msb (sign bit) of the field only
    case 4: return all & ~field;                    // everything but the field
    case 5: return field & ~(1ULL << (o + w - 1));  // field all ones except the sign bit
    case 6: return 0x9999999999999999ULL & all;     // valid BCD everywhere
    case 7: return (0xA5A5A5A5A5A5A5A5ULL ^ (rnd() & 0x0F0F0F0F0F0F0F0FULL)) & all;
    default: return rnd() & all;
  }
}

template <class Orderer> struct OrdName;
template <> struct OrdName<es::LittleEndianByteOrderer<BufT>> { static const char *n() { return "LE"; } static const bool le = true; };
template <> struct OrdName<es::BigEndianByteOrderer<BufT>> { static const char *n() { return "BE"; } static const bool le = false; };

template <class Orderer>
static void store(std::uint64_t v) {
  for (int i = 0; i < NB; ++i) {
    int sh = OrdName<Orderer>::le ? 8 * i : 8 * (NB - 1 - i);
    g_buf[i] = static_cast<unsigned char>(v >> sh);
  }
}

template <class T> static std::string vs(T v) {
  return std::is_signed<T>::value ? std::to_string(static_cast<long long>(v)) : std::to_string(static_cast<unsigned long long>(v));
}

template <class View, class Block>
static void one(const char *ty, const char *ord, int w, int o, Block block, long long wval_s, unsigned long long wval_u, bool use_signed) {
  char h[40];
  View view(block);
  hex(h, g_buf, NB);
  bool ok = view.Ok();
  std::string val = ok ? vs(view.Read()) : std::string("-");
  bool could, tr;
  if (use_signed) { could = view.CouldWriteValue(wval_s); tr = view.TryToWrite(wval_s); }
  else { could = view.CouldWriteValue(wval_u); tr = view.TryToWrite(wval_u); }
  char h2[40];
  hex(h2, g_buf, NB);
  std::printf("%s %s %d %d %d %s %d %s %s %s %d %d %s %d %d\n", ty, ord, C, w, o, h, ok ? 1 : 0, val.c_str(),
              use_signed ? "s" : "u", use_signed ? std::to_string(wval_s).c_str() : std::to_string(wval_u).c_str(),
              could ? 1 : 0, tr ? 1 : 0, h2, static_cast<int>(sizeof(typename View::ValueType) * 8),
              std::is_signed<typename View::ValueType>::value ? 1 : 0);
}

template <class Orderer, int W>
static void width() {
  typedef es::BitBlock<Orderer, CONTAINER> BB;
  typedef typename BB::template OffsetStorageType<1, 0> OBB;
  typedef es::FixedSizeViewParameters<W, es::AllValuesAreOk> P;
  const char *ord = OrdName<Orderer>::n();
  for (int o = 0; o + W <= C; ++o) {
    for (int k = 0; k < NCONTENTS; ++k) {
      std::uint64_t base = content(k, o, W);
      // value to write: depends on k
      unsigned long long umax = W == 64 ? ~0ULL : ((1ULL << W) - 1);
      long long smin = W == 64 ? INT64_MIN : -(1LL << (W - 1));
      long long smax = W == 64 ? INT64_MAX : ((1LL << (W - 1)) - 1);
      unsigned long long uv; long long sv; bool sgn;
      switch (k % 8) {
        case 0: uv = umax; sv = smin; break;
        case 1: uv = 0; sv = smax; break;
        case 2: uv = W < 64 ? umax + 1 : umax; sv = -1; break;
        case 3: uv = rnd() & umax; sv = W < 64 ? smin - 1 : smin; break;
        case 4: uv = 1; sv = W < 64 ? smax + 1 : smax; break;
        case 5: uv = rnd(); sv = static_cast<long long>(rnd()); break;
        case 6: uv = umax >> 1; sv = 0; break;
        default: uv = rnd() & umax; sv = static_cast<long long>(rnd() & (umax >> 1)) * ((rnd() & 1) ? 1 : -1); break;
      }
      sgn = (k & 1) != 0;
      store<Orderer>(base);
      { BB bb{BufT(g_buf, NB)}; one<ep::UIntView<P, OBB>>("U", ord, W, o, bb.template GetOffsetStorage<1, 0>(o, W), sv, uv, sgn); }
      if (o > 0 && (k % 2) == 0) {
        // the same field reached through a nested bit block (a `bits` inside a `bits`, an array element inside a
        // `bits`): outer block at bit o1 of the container, the field at bit o2 of the outer block, o1 + o2 == o;
        // the outer block ends exactly at the field's end, a little past it, or at the container's end
        int o1 = (k % 4 == 0) ? o : (o + 1) / 2, o2 = o - o1;
        int room = C - o1, w1 = o2 + W + ((k % 3) < (room - o2 - W) ? (k % 3) : 0);
        if (k % 5 == 4) w1 = room;
        store<Orderer>(base);
        BB bb{BufT(g_buf, NB)};
        OBB outer = bb.template GetOffsetStorage<1, 0>(o1, w1);
        one<ep::UIntView<P, OBB>>("U", ord, W, o, outer.template GetOffsetStorage<1, 0>(o2, W), sv, uv, sgn);
        store<Orderer>(base);
        BB bb2{BufT(g_buf, NB)};
        OBB outer2 = bb2.template GetOffsetStorage<1, 0>(o1, w1);
        one<ep::IntView<P, OBB>>("I", ord, W, o, outer2.template GetOffsetStorage<1, 0>(o2, W), sv, uv, !sgn);
      }
      store<Orderer>(base);
      { BB bb{BufT(g_buf, NB)}; one<ep::IntView<P, OBB>>("I", ord, W, o, bb.template GetOffsetStorage<1, 0>(o, W), sv, uv, !sgn); }
      store<Orderer>(base);
      {
        BB bb{BufT(g_buf, NB)};
        // BCD: write a decimal value around the maximum
        unsigned long long bmax = 1; for (int i = 0; i < W / 4; ++i) bmax *= 10; bmax = bmax * (1ULL << (W % 4)) - 1;
        unsigned long long bv = (k % 4 == 0) ? bmax : (k % 4 == 1) ? bmax + 1 : (k % 4 == 2) ? 0 : (rnd() % (bmax + 1));
        typedef ep::BcdView<P, OBB> V;
        V view(bb.template GetOffsetStorage<1, 0>(o, W));
        char h[40], h2[40]; hex(h, g_buf, NB);
        bool ok = view.Ok();
        std::string val = ok ? vs(view.Read()) : std::string("-");
        typename V::ValueType arg = static_cast<typename V::ValueType>(bv);
        bool could = view.CouldWriteValue(arg), tr = view.TryToWrite(arg);
        hex(h2, g_buf, NB);
        std::printf("B %s %d %d %d %s %d %s u %llu %d %d %s %d %d\n", ord, C, W, o, h, ok ? 1 : 0, val.c_str(),
                    static_cast<unsigned long long>(arg), could ? 1 : 0, tr ? 1 : 0, h2,
                    static_cast<int>(sizeof(typename V::ValueType) * 8), std::is_signed<typename V::ValueType>::value ? 1 : 0);
      }
    }
  }
  // the view placed directly on a whole BitBlock (struct-level field): W == C only
}

enum class ES8 : std::int8_t { A = 1 }; enum class EU8 : std::uint8_t { A = 1 };
enum class ES16 : std::int16_t { A = 1 }; enum class EU16 : std::uint16_t { A = 1 };
enum class ES32 : std::int32_t { A = 1 }; enum class EU32 : std::uint32_t { A = 1 };
enum class ES64 : std::int64_t { A = 1 }; enum class EU64 : std::uint64_t { A = 1 };

template <class Orderer, class E, int W>
static void enum_width(const char *ty) {
  typedef es::BitBlock<Orderer, CONTAINER> BB;
  typedef typename BB::template OffsetStorageType<1, 0> OBB;
  typedef es::FixedSizeViewParameters<W, es::AllValuesAreOk> P;
  typedef es::EnumView<E, P, OBB> V;
  typedef typename std::underlying_type<E>::type U;
  const char *ord = OrdName<Orderer>::n();
  for (int o = 0; o + W <= C; o += (C - W > 8 ? 3 : 1)) {
    for (int k = 0; k < 9; ++k) {
      store<Orderer>(content(k == 5 ? 8 : (k % 6), o, W));
      BB bb{BufT(g_buf, NB)};
      V view(bb.template GetOffsetStorage<1, 0>(o, W));
      char h[40], h2[40]; hex(h, g_buf, NB);
      bool ok = view.Ok();
      std::string val = ok ? vs(static_cast<U>(view.Read())) : std::string("-");
      U raw = static_cast<U>(k == 0 ? -1 : k == 1 ? 0 : k == 2 ? 1 : static_cast<U>(rnd()));
      if (k == 3) raw = static_cast<U>(static_cast<U>(1) << (W - 1));
      // the field's own all-ones value, one past it, and the largest positive value of a signed field of this width
      const int ubits = static_cast<int>(sizeof(U) * 8);
      if (k == 6) raw = W < ubits ? static_cast<U>((static_cast<unsigned long long>(1) << W) - 1) : static_cast<U>(-1);
      if (k == 7) raw = W < ubits - 1 ? static_cast<U>(static_cast<unsigned long long>(1) << W) : static_cast<U>(1);
      if (k == 8) raw = static_cast<U>((static_cast<unsigned long long>(1) << (W - 1)) - 1);
      E arg = static_cast<E>(raw);
      bool could = view.CouldWriteValue(arg), tr = view.TryToWrite(arg);
      hex(h2, g_buf, NB);
      std::printf("%s %s %d %d %d %s %d %s %s %s %d %d %s %d %d\n", ty, ord, C, W, o, h, ok ? 1 : 0, val.c_str(),
                  std::is_signed<U>::value ? "s" : "u", vs(raw).c_str(), could ? 1 : 0, tr ? 1 : 0, h2,
                  static_cast<int>(sizeof(U) * 8), std::is_signed<U>::value ? 1 : 0);
    }
  }
}

template <class Orderer>
static void flags() {
  typedef es::BitBlock<Orderer, CONTAINER> BB;
  typedef typename BB::template OffsetStorageType<1, 0> OBB;
  typedef es::FixedSizeViewParameters<1, es::AllValuesAreOk> P;
  typedef ep::FlagView<P, OBB> V;
  const char *ord = OrdName<Orderer>::n();
  for (int o = 0; o < C; ++o) {
    for (int k = 0; k < 4; ++k) {
      store<Orderer>(content(k == 3 ? 8 : k, o, 1));
      BB bb{BufT(g_buf, NB)};
      V view(bb.template GetOffsetStorage<1, 0>(o, 1));
      char h[40], h2[40]; hex(h, g_buf, NB);
      bool ok = view.Ok();
      bool v = ok ? view.Read() : false;
      bool arg = (k & 1) != 0;
      bool could = view.CouldWriteValue(arg), tr = view.TryToWrite(arg);
      hex(h2, g_buf, NB);
      std::printf("F %s %d 1 %d %s %d %d u %d %d %d %s 8 0\n", ord, C, o, h, ok ? 1 : 0, v ? 1 : 0, arg ? 1 : 0, could ? 1 : 0, tr ? 1 : 0, h2);
    }
  }
}

template <class Orderer, int W> struct Widths {
  static void run() { width<Orderer, W>(); Widths<Orderer, W - 1>::run(); }
};
template <class Orderer> struct Widths<Orderer, 0> { static void run() {} };

template <class Orderer, class E, int W> struct EnumWidths {
  static void run(const char *ty) { enum_width<Orderer, E, W>(ty); EnumWidths<Orderer, E, W - 1>::run(ty); }
};
template <class Orderer, class E> struct EnumWidths<Orderer, E, 0> { static void run(const char *) {} };

template <class Orderer>
static void direct() {
  // struct-level field: the view sits directly on the BitBlock (W == C)
  typedef es::BitBlock<Orderer, CONTAINER> BB;
  typedef es::FixedSizeViewParameters<CONTAINER, es::AllValuesAreOk> P;
  const char *ord = OrdName<Orderer>::n();
  for (int k = 0; k < NCONTENTS + 4; ++k) {
    std::uint64_t base = content(k, 0, C);
    store<Orderer>(base);
    { BB bb{BufT(g_buf, NB)}; one<ep::UIntView<P, BB>>("DU", ord, C, 0, bb, -1, rnd(), false); }
    store<Orderer>(base);
    { BB bb{BufT(g_buf, NB)}; one<ep::IntView<P, BB>>("DI", ord, C, 0, bb, static_cast<long long>(rnd()) >> (64 - C), 0, true); }
#if CONTAINER == 32 || CONTAINER == 64
    store<Orderer>(base);
    {
      BB bb{BufT(g_buf, NB)};
      typedef ep::FloatView<P, BB> V; V view(bb);
      char h[40]; hex(h, g_buf, NB);
      bool ok = view.Ok();
      typename V::ValueType f = ok ? view.Read() : 0;
      unsigned long long bits = 0; std::memcpy(&bits, &f, sizeof f);
      std::printf("DF %s %d %d 0 %s %d %llu u 0 1 0 %s %d 1\n", ord, C, C, h, ok ? 1 : 0, bits, h, static_cast<int>(sizeof(f) * 8));
    }
#endif
  }
}

template <class Orderer>
static void all() {
  Widths<Orderer, CONTAINER>::run();
  flags<Orderer>();
  direct<Orderer>();
  EnumWidths<Orderer, ES64, CONTAINER>::run("ES64"); EnumWidths<Orderer, EU64, CONTAINER>::run("EU64");
  EnumWidths<Orderer, ES32, (CONTAINER < 32 ? CONTAINER : 32)>::run("ES32"); EnumWidths<Orderer, EU32, (CONTAINER < 32 ? CONTAINER : 32)>::run("EU32");
  EnumWidths<Orderer, ES16, (CONTAINER < 16 ? CONTAINER : 16)>::run("ES16"); EnumWidths<Orderer, EU16, (CONTAINER < 16 ? CONTAINER : 16)>::run("EU16");
  EnumWidths<Orderer, ES8, 8>::run("ES8"); EnumWidths<Orderer, EU8, 8>::run("EU8");
}

int main(int argc, char **argv) {
  if (argc > 1) g_lcg ^= std::strtoull(argv[1], nullptr, 10) * 0x9E3779B97F4A7C15ULL;
  all<es::LittleEndianByteOrderer<BufT>>();
  all<es::BigEndianByteOrderer<BufT>>();
  std::printf("#DONE\n");
  return 0;
}
'''
