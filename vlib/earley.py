"""Independent Earley recogniser (incremental, so it can walk a trie of
strings), grammar reduction analysis, and a bounded ambiguity finder.
Grammar = (start, [(lhs, (rhs...)), ...]); terminals = symbols never on a lhs.
Shares no code with compiler/front_end/lr1.py."""

import collections


class Earley(object):
    def __init__(self, start, prods):
        self.start = start
        self.prods = [(l, tuple(r)) for l, r in prods]
        self.nonterminals = set(l for l, _ in self.prods)
        self.by_lhs = collections.defaultdict(list)
        for i, (l, _r) in enumerate(self.prods):
            self.by_lhs[l].append(i)
        self.terminals = set(s for _l, r in self.prods for s in r if s not in self.nonterminals)
        self.nullable = self._nullable()
        self.productive = self._productive()
        self.reachable = self._reachable()

    # -- static analysis ----------------------------------------------------
    def _nullable(self):
        nl = set()
        changed = True
        while changed:
            changed = False
            for l, r in self.prods:
                if l not in nl and all(s in nl for s in r):
                    nl.add(l)
                    changed = True
        return nl

    def _productive(self):
        pr = set()
        changed = True
        while changed:
            changed = False
            for l, r in self.prods:
                if l not in pr and all((s in pr) or (s not in self.nonterminals) for s in r):
                    pr.add(l)
                    changed = True
        return pr

    def _reachable(self):
        seen = {self.start}
        work = [self.start]
        while work:
            a = work.pop()
            for i in self.by_lhs.get(a, ()):
                for s in self.prods[i][1]:
                    if s in self.nonterminals and s not in seen:
                        seen.add(s)
                        work.append(s)
        return seen

    def is_reduced(self):
        return (self.start in self.nonterminals and self.nonterminals <= self.productive
                and self.nonterminals <= self.reachable)

    # -- incremental recognition --------------------------------------------
    def initial(self):
        """Returns chart = [S0]."""
        s0 = set()
        for i in self.by_lhs.get(self.start, ()):
            s0.add((i, 0, 0))
        chart = [s0]
        self._close(chart, 0)
        return chart

    def _close(self, chart, k):
        sk = chart[k]
        work = list(sk)
        while work:
            pi, dot, origin = work.pop()
            lhs, rhs = self.prods[pi]
            if dot < len(rhs):
                sym = rhs[dot]
                if sym in self.nonterminals:
                    for j in self.by_lhs[sym]:
                        it = (j, 0, k)
                        if it not in sk:
                            sk.add(it)
                            work.append(it)
                    if sym in self.nullable:
                        it = (pi, dot + 1, origin)
                        if it not in sk:
                            sk.add(it)
                            work.append(it)
            else:
                # completion
                for (qi, qdot, qorigin) in list(chart[origin]):
                    ql, qr = self.prods[qi]
                    if qdot < len(qr) and qr[qdot] == lhs:
                        it = (qi, qdot + 1, qorigin)
                        if it not in sk:
                            sk.add(it)
                            work.append(it)

    def step(self, chart, terminal):
        """Returns a new chart (list sharing the old sets) extended by terminal,
        or None when no item can scan it (prefix not viable)."""
        k = len(chart)
        prev = chart[-1]
        nxt = set()
        for (pi, dot, origin) in prev:
            rhs = self.prods[pi][1]
            if dot < len(rhs) and rhs[dot] == terminal:
                nxt.add((pi, dot + 1, origin))
        if not nxt:
            return None
        new = chart + [nxt]
        self._close(new, k)
        return new

    def accepts_chart(self, chart):
        for (pi, dot, origin) in chart[-1]:
            lhs, rhs = self.prods[pi]
            if lhs == self.start and dot == len(rhs) and origin == 0:
                return True
        return False

    def recognize(self, symbols):
        """Returns (accepted, viable_len): viable_len = length of the longest
        prefix for which the chart is non-empty."""
        chart = self.initial()
        for i, s in enumerate(symbols):
            nxt = self.step(chart, s)
            if nxt is None:
                return False, i
            chart = nxt
        return self.accepts_chart(chart), len(symbols)

    def expected_terminals(self, chart):
        out = set()
        for (pi, dot, origin) in chart[-1]:
            rhs = self.prods[pi][1]
            if dot < len(rhs) and rhs[dot] not in self.nonterminals:
                out.add(rhs[dot])
        return out


def find_ambiguity(start, prods, max_len, max_forms=60000):
    """Bounded search for a terminal string with two distinct leftmost
    derivations.  Returns the string (tuple) or None.  Sound: a returned string
    is a proof of ambiguity.  Incomplete by design."""
    prods = list(dict.fromkeys((l, tuple(r)) for l, r in prods))
    nts = set(l for l, _ in prods)
    by = collections.defaultdict(list)
    for l, r in prods:
        by[l].append(r)
    # minimal terminal yield length per symbol, to prune
    INF = 10 ** 9
    minlen = {n: INF for n in nts}
    changed = True
    while changed:
        changed = False
        for l, r in prods:
            v = sum(minlen.get(s, 1) if s in nts else 1 for s in r)
            if v < minlen[l]:
                minlen[l] = v
                changed = True
    counts = collections.Counter()
    # DFS over leftmost derivations; form = tuple of symbols; cycles guarded by depth
    stack = [((start,), 0)]
    forms = 0
    max_depth = 3 * max_len + 8
    while stack:
        form, depth = stack.pop()
        forms += 1
        if forms > max_forms:
            return None
        idx = None
        for i, s in enumerate(form):
            if s in nts:
                idx = i
                break
        if idx is None:
            counts[form] += 1
            if counts[form] >= 2:
                return form
            continue
        if depth >= max_depth:
            continue
        for r in by[form[idx]]:
            new = form[:idx] + r + form[idx + 1:]
            need = sum(minlen[s] if s in nts else 1 for s in new)
            if need > max_len or len(new) > max_len + 4:
                continue
            stack.append((new, depth + 1))
    return None
