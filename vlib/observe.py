"""Model-side observation record: the same keys, in the same shape, as the C++
driver emitted by vlib.cppdrv prints.  UNSPEC values are recorded as the
string "UNSPEC" and are skipped by the comparison."""

from vlib import refsem
from vlib.refsem import UNKNOWN, UNSPEC, ArrayView, ScalarView, StructView, known

CAP = 6


def b3(v):
    if v is UNSPEC:
        return "UNSPEC"
    if v is UNKNOWN:
        return "U"
    return "1" if v else "0"


def b2(v):
    """bool observation where unknown collapses to false."""
    if v is UNSPEC:
        return "UNSPEC"
    return "1" if v is True else "0"


def valstr(t, v):
    if v is UNSPEC:
        return "UNSPEC"
    if isinstance(v, bool):
        return "1" if v else "0"
    return str(v)


def dump_value(view, key, out):
    if view is UNSPEC:
        out[key + ".ok"] = "UNSPEC"
        return
    if isinstance(view, ScalarView):
        ok, v = view.read()
        out[key + ".ok"] = b2(ok)
        if ok is True:
            out[key + ".val"] = valstr(view.t, v)
        elif ok is UNSPEC:
            out[key + ".val"] = "UNSPEC"
    elif isinstance(view, StructView):
        dump_struct(view, key + ".", out)
    elif isinstance(view, ArrayView):
        n = 0 if (view.store.null and not isinstance(view.store, refsem.BitStore)) else view.count()
        out[key + ".ok"] = b2(view.ok()) if known(n) else ("UNSPEC" if n is UNSPEC else "0")
        if not known(n):
            out[key + ".count"] = "UNSPEC"
            out["~taint~" + key + "["] = "UNSPEC"
            return
        out[key + ".count"] = str(n)
        for i in range(n):
            if i >= CAP and i + 1 < n:
                continue
            dump_value(view.element(i), "%s[%d]" % (key, i), out)


def dump_struct(v, p, out):
    out[p + "ok"] = b2(v.ok())
    out[p + "complete"] = b2(v.is_complete())
    sz = v.size()
    if sz is UNKNOWN:
        # Some condition or location the size depends on is not readable.
        # Whether a view still reports the size as known is not specified (the
        # compiler may know it from its bounds); if the value is determined
        # whatever the unknowns turn out to be, a reported size must equal it.
        out[p + "size_known"] = "UNSPEC"
        out[p + "size"] = ("OPT:%d" % v.size_determined()) if known(v.size_determined()) else "UNSPEC"
    else:
        out[p + "size_known"] = "UNSPEC" if sz is UNSPEC else ("1" if known(sz) else "0")
        if known(sz):
            out[p + "size"] = str(sz)
        elif sz is UNSPEC:
            out[p + "size"] = "UNSPEC"
    # $max_size_in_* / $min_size_in_*: documented as bounds ("may not be exact"); exact only where the size is a
    # compile-time constant.  The bound itself is judged per record by check_size_bounds().
    st = refsem.static_struct_size(v.s)
    out[p + "maxsize"] = str(st) if st is not None else "UNSPEC"
    out[p + "minsize"] = str(st) if st is not None else "UNSPEC"
    for f in v.s.all_named_fields():
        h = v.has(f)
        out[p + f.name + ".has"] = b3(h)
        if f.kind == "virtual":
            val = v.eval_ref([f.name], top=True)
            out[p + f.name + ".ok"] = "UNSPEC" if val is UNSPEC else ("1" if known(val) else "0")
            if known(val):
                out[p + f.name + ".val"] = valstr(None, val)
            elif val is UNSPEC:
                out[p + f.name + ".val"] = "UNSPEC"
            continue
        fv = v.field_view(f)
        if fv is UNSPEC:
            out[p + f.name + ".*"] = "UNSPEC"
            continue
        out[p + f.name + ".complete"] = b2(fv.is_complete())
        if f.type.kind == "struct":
            if h is True and fv.taints_parent():
                out["~taint~" + p + f.name + "."] = "UNSPEC"
            elif h is True:
                dump_value(fv, p + f.name, out)
            elif h is UNSPEC:
                out[p + f.name + ".*"] = "UNSPEC"
            else:
                out[p + f.name + ".ok"] = b2(fv.ok())
        else:
            dump_value(fv, p + f.name, out)
    return out


def observe(module, struct_name, params, data):
    v = refsem.view(module, struct_name, params, data)
    return dump_struct(v, "", {})


def check_size_bounds(actual):
    """[(key, bound, size)] for every reported size lying outside the reported min/max size constants."""
    bad = []
    for k, v in actual.items():
        if k == "size" or k.endswith(".size"):
            p = k[:-4]
            try:
                sz = int(v)
                mx, mn = actual.get(p + "maxsize"), actual.get(p + "minsize")
                if mx is not None and sz > int(mx):
                    bad.append((p + "maxsize", mx, v))
                if mn is not None and sz < int(mn):
                    bad.append((p + "minsize", mn, v))
            except ValueError:
                continue
    return bad


def _more_known(d):
    k, mv, av = d
    if mv is None:
        return av is not None
    if k.endswith(".has"):
        return mv == "U" and av in ("0", "1")
    if k == "ok" or k.endswith(".ok") or k == "complete" or k.endswith(".complete"):
        return mv == "0" and av == "1"
    if k.endswith(".count"):
        # an array the strict model cannot locate (count 0) whose extent the compiler folded to a constant
        return mv == "0" and av not in (None, "0")
    return mv is None and av is not None


def reconcile(module, struct_name, params, data, diffs, rng, k=8, actual=None):
    """The implementation may report as known what the strict three-valued
    reference calls unknown, when the value does not depend on the unreadable
    leaves (refsem.Completion).  A difference of that kind (presence known
    instead of unknown, Ok instead of not Ok, a key the strict record does not
    have - e.g. the whole subtree of a field whose presence the compiler
    folded to true) is dropped iff the ordinary comparison of the
    implementation's record with the reference record under each of `k`
    random completions finds no difference for that key (UNSPEC is skipped
    there exactly as in the strict comparison).  A report that some
    completion contradicts stays a difference.  Returns (remaining, excused)."""
    import random
    cands = [d for d in diffs if _more_known(d)]
    if not cands or actual is None:
        return diffs, 0
    contradicted = set()
    ncomp = 0
    for _ in range(k):
        refsem.COMPLETION = refsem.Completion(random.Random(rng.getrandbits(64)))
        try:
            c = observe(module, struct_name, params, bytearray(data))
        except (RecursionError, KeyError, ValueError, TypeError, ZeroDivisionError):
            continue
        finally:
            refsem.COMPLETION = None
        ncomp += 1
        for key, _e, _g in compare(c, actual):
            contradicted.add(key)
    if not ncomp:
        return diffs, 0
    keep, excused = [], 0
    for d in diffs:
        if d in cands and d[0] not in contradicted:
            excused += 1
        else:
            keep.append(d)
    return keep, excused


def compare(model, actual):
    """Returns list of (key, expected, got) ignoring UNSPEC-tainted keys."""
    diffs = []
    partial = "#partial" in actual
    tainted = [k[7:] for k in model if k.startswith("~taint~")]
    tainted += [k[:-1] for k in model if k.endswith(".*")]
    for k, mv in model.items():
        if mv == "UNSPEC" or k.endswith("*") or k.startswith("~taint~"):
            continue
        if any(k.startswith(t) for t in tainted):
            continue
        av = actual.get(k)
        if mv.startswith("OPT:"):
            if av is not None and av != mv[4:]:
                diffs.append((k, mv, av))
            continue
        if av is None and partial:
            continue  # the driver aborted before printing this line
        if av != mv:
            diffs.append((k, mv, av))
    for k, av in actual.items():
        if k.startswith("#"):
            continue
        if k not in model and not any(k.startswith(t) for t in tainted):
            # keys the model did not produce: only acceptable under an UNSPEC parent
            base = k.rsplit(".", 1)[0]
            if model.get(base + ".val") == "UNSPEC" or model.get(base + ".ok") == "UNSPEC" or \
                    model.get(k.rsplit(".", 1)[0] + ".size") == "UNSPEC":
                continue
            diffs.append((k, None, av))
    return diffs
