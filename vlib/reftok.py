"""Independent reference tokenizer built from the pattern table of
doc/grammar.md plus hand-written predicates for the language reference's name
and numeric-constant rules.  No code shared with compiler/front_end/tokenizer."""

import re

from vlib import docgrammar

# Line terminators: Emboss source is split into lines the way Python's
# universal-newline text handling does it (the set str.splitlines documents).
_TERMINATORS = "\n\r\x0b\x0c\x1c\x1d\x1e\x85  "

_TABLE = None


def table():
    global _TABLE
    if _TABLE is None:
        _TABLE = [(re.compile(p), s) for p, s in docgrammar.token_table()]
    return _TABLE


def reset():
    global _TABLE
    _TABLE = None


def split_lines(text):
    """Own implementation of universal line splitting (CRLF is one break; a
    trailing terminator does not create an extra empty line)."""
    lines = []
    cur = []
    i = 0
    n = len(text)
    while i < n:
        ch = text[i]
        if ch in _TERMINATORS:
            lines.append("".join(cur))
            cur = []
            if ch == "\r" and i + 1 < n and text[i + 1] == "\n":
                i += 1
        else:
            cur.append(ch)
        i += 1
    if cur:
        lines.append("".join(cur))
    return lines


def tokenize_line(line):
    """Returns (list of (symbol, text, col0), error_col0 or None)."""
    toks = []
    off = 0
    tab = table()
    while off < len(line):
        best = None
        best_sym = None
        rest = line[off:]
        for rx, sym in tab:
            m = rx.match(rest)
            if m and m.end() > 0 and (best is None or m.end() > len(best)):
                best = m.group(0)
                best_sym = sym
        if best is None:
            return toks, off
        if best_sym is not None:
            toks.append((best_sym, best, off))
        off += len(best)
    return toks, None


def tokenize(text):
    """Returns ("ok", [(symbol, text, (l1,c1),(l2,c2))...]) or
    ("error", kind, (line, col))."""
    out = []
    stack = [""]
    lines = split_lines(text)
    for ln, line in enumerate(lines, 1):
        ltoks, err = tokenize_line(line)
        if err is not None:
            return ("error", "Unrecognized token", (ln, err + 1))
        significant = any(s != "Comment" for s, _, _ in ltoks)
        if significant:
            ws = re.match(r"\s*", line).group(0)
            if ws == stack[-1]:
                pass
            elif ws.startswith(stack[-1]):
                out.append(("Indent", ws[len(stack[-1]):], (ln, len(stack[-1]) + 1), (ln, len(ws) + 1)))
                stack.append(ws)
            else:
                if ws not in stack:
                    return ("error", "Bad indentation", (ln, 1))
                while stack[-1] != ws:
                    stack.pop()
                    out.append(("Dedent", "", (ln, len(ws) + 1), (ln, len(ws) + 1)))
        for s, t, c in ltoks:
            out.append((s, t, (ln, c + 1), (ln, c + 1 + len(t))))
        out.append(('"\\n"', "\n", (ln, len(line) + 1), (ln, len(line) + 1)))
    for _ in range(len(stack) - 1):
        out.append(("Dedent", "", (len(lines) + 1, 1), (len(lines) + 1, 1)))
    return ("ok", out)


# ---------------------------------------------------------------------------
# Language-reference predicates (hand-written, no regex from the table)
# ---------------------------------------------------------------------------

_LOWER = "abcdefghijklmnopqrstuvwxyz"
_UPPER = "ABCDEFGHIJKLMNOPQRSTUVWXYZ"
_DIGIT = "0123456789"


def is_snake(s):
    return bool(s) and s[0] in _LOWER and all(c in _LOWER + _DIGIT + "_" for c in s)


def is_camel(s):
    return (bool(s) and s[0] in _UPPER and all(c in _LOWER + _UPPER + _DIGIT for c in s)
            and any(c in _LOWER for c in s))


def is_shouty(s):
    return (len(s) >= 2 and s[0] in _UPPER and all(c in _UPPER + _DIGIT + "_" for c in s)
            and any(c in _UPPER + "_" for c in s[1:]))


def _grouped(digits, alphabet, group_sizes, first_may_be_empty_prefix_underscore):
    """digits: string after the 0x/0b prefix (or the whole decimal)."""
    if not digits:
        return False
    if "_" not in digits:
        return all(c in alphabet for c in digits)
    for g in group_sizes:
        parts = digits.split("_")
        if first_may_be_empty_prefix_underscore and parts[0] == "":
            parts = parts[1:]
            if not parts:
                continue
        ok = 1 <= len(parts[0]) <= g and all(len(p) == g for p in parts[1:])
        ok = ok and all(c in alphabet for p in parts for c in p)
        if ok:
            return True
    return False


def is_number(s):
    if s.startswith("0x"):
        return _grouped(s[2:], "0123456789abcdefABCDEF", (4, 8), True)
    if s.startswith("0b"):
        return _grouped(s[2:], "01", (4, 8), True)
    return _grouped(s, _DIGIT, (3,), False)


def number_value(s):
    t = s.replace("_", "")
    if t.startswith("0x"):
        return int(t[2:], 16)
    if t.startswith("0b"):
        return int(t[2:], 2)
    return int(t, 10)
