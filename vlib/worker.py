"""Persistent worker: python -m vlib.worker <module>.  Reads JSON lines
{"fn":..., "arg":...} on stdin; replies one JSON line per request on the
original stdout.  Anything the module prints goes to stderr."""

import importlib
import json
import os
import sys
import traceback


def main():
    out = os.fdopen(os.dup(1), "w")
    os.dup2(2, 1)
    sys.stdout = sys.stderr
    sys.setrecursionlimit(int(os.environ.get("VERIF_RECURSION", "1000")))
    modname = sys.argv[1]
    if "." not in modname:
        modname = "vlib.checks." + modname
    mod = importlib.import_module(modname)
    for line in sys.stdin:
        req = json.loads(line)
        try:
            val = getattr(mod, req["fn"])(req["arg"])
            rep = {"ok": True, "val": val}
            from vlib import monitors
            if monitors.ERRORS:
                rep["monitor_errors"] = list(monitors.ERRORS)
                del monitors.ERRORS[:]
        except BaseException as e:  # worker-level failure of the harness itself
            if isinstance(e, (KeyboardInterrupt, SystemExit)):
                raise
            rep = {"ok": False, "err": repr(e), "tb": traceback.format_exc()[-4000:]}
        out.write(json.dumps(rep, default=str) + "\n")
        out.flush()


if __name__ == "__main__":
    main()
