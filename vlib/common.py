"""Shared machinery: seeds, tiers, scratch dirs, persistent workers, evidence,
replay files and known-findings classification.  Standard library only."""

import collections
import hashlib
import json
import os
import queue
import random
import shutil
import subprocess
import sys
import tempfile
import threading
import time

VERIF = os.path.dirname(os.path.dirname(os.path.abspath(__file__)))
REPO = os.environ.get("EMBOSS_REPO", "/repo")
PY = os.environ.get("EMBOSS_PYTHON", "/venv/bin/python")
NCPU = int(os.environ.get("VERIF_JOBS", "0")) or min(16, os.cpu_count() or 4)


def repo_on_path():
    if REPO not in sys.path:
        sys.path.insert(0, REPO)
    if VERIF not in sys.path:
        sys.path.insert(0, VERIF)


def child_env(extra=None, hashseed="0"):
    env = dict(os.environ)
    env["PYTHONPATH"] = REPO + os.pathsep + VERIF
    env["EMBOSS_REPO"] = REPO
    env["PYTHONDONTWRITEBYTECODE"] = "1"
    if hashseed is not None:
        env["PYTHONHASHSEED"] = str(hashseed)
    else:
        env.pop("PYTHONHASHSEED", None)
    if extra:
        env.update(extra)
    return env


def case_rng(seed, check_id, index):
    """Deterministic RNG for case `index` of a run: depends on (seed, id, i)."""
    h = hashlib.sha256(("%s/%s/%s" % (seed, check_id, index)).encode()).digest()
    return random.Random(int.from_bytes(h[:8], "big"))


class Scratch(object):
    """mkdtemp outside /repo and /verif, removed on exit."""

    def __init__(self, tag="verif"):
        base = os.environ.get("VERIF_SCRATCH_BASE") or tempfile.gettempdir()
        self.path = tempfile.mkdtemp(prefix="emb-%s-" % tag, dir=base)

    def __enter__(self):
        return self.path

    def __exit__(self, *a):
        shutil.rmtree(self.path, ignore_errors=True)


# ---------------------------------------------------------------------------
# Persistent workers (JSON lines over pipes)
# ---------------------------------------------------------------------------


class WorkerDied(Exception):
    pass


class _Worker(object):
    def __init__(self, module, hashseed="0", extra_env=None):
        self.module = module
        self.hashseed = hashseed
        self.extra_env = extra_env
        self.proc = None
        self.start()

    def start(self):
        self.proc = subprocess.Popen(
            [PY, "-m", "vlib.worker", self.module],
            stdin=subprocess.PIPE,
            stdout=subprocess.PIPE,
            stderr=subprocess.DEVNULL,
            env=child_env(self.extra_env, self.hashseed),
            cwd=VERIF,
            text=True,
            bufsize=1,
        )

    def kill(self):
        try:
            self.proc.kill()
            self.proc.wait(timeout=10)
        except Exception:
            pass

    def call(self, fn, arg, timeout):
        """Returns ("ok", value) | ("timeout", None) | ("died", rc)."""
        result = {}

        def reader():
            try:
                line = self.proc.stdout.readline()
                result["line"] = line
            except Exception as e:  # pragma: no cover
                result["err"] = repr(e)

        try:
            self.proc.stdin.write(json.dumps({"fn": fn, "arg": arg}) + "\n")
            self.proc.stdin.flush()
        except (BrokenPipeError, OSError):
            rc = self.proc.poll()
            self.kill()
            self.start()
            return ("died", rc)
        t = threading.Thread(target=reader, daemon=True)
        t.start()
        t.join(timeout)
        if t.is_alive():
            self.kill()
            t.join(5)
            self.start()
            return ("timeout", None)
        line = result.get("line")
        if not line:
            rc = self.proc.poll()
            self.kill()
            self.start()
            return ("died", rc)
        rep = json.loads(line)
        if isinstance(rep, dict) and rep.get("monitor_errors"):
            MONITOR_ERRORS.extend(rep["monitor_errors"][:5])
        return ("ok", rep)


def cap_by_mech(viols, per=6, total=80):
    """Bounds what a worker sends back WITHOUT letting one mechanism (e.g. hundreds of occurrences of a listed
    finding) crowd out the others: at most `per` entries per mechanism."""
    seen = {}
    out = []
    for v in viols:
        m = v.get("mech") if isinstance(v, dict) else v[0]
        seen[m] = seen.get(m, 0) + 1
        if seen[m] <= per and len(out) < total:
            out.append(v)
    return out


MONITOR_ERRORS = []  # faults of the monitors themselves, reported by workers: the run is inconclusive


def run_cases(module, fn, args, timeout=120, jobs=None, hashseed="0", extra_env=None,
              on_result=None):
    """Runs fn(arg) for each arg in persistent worker processes importing
    vlib.checks.<module> (or any dotted module).  Returns list of
    (status, value) in order of args."""
    args = list(args)
    jobs = min(jobs or NCPU, max(1, len(args)))
    results = [None] * len(args)
    q = queue.Queue()
    for i, a in enumerate(args):
        q.put((i, a))
    lock = threading.Lock()

    def loop():
        w = _Worker(module, hashseed, extra_env)
        try:
            while True:
                try:
                    i, a = q.get_nowait()
                except queue.Empty:
                    return
                r = w.call(fn, a, timeout)
                results[i] = r
                if on_result:
                    with lock:
                        on_result(i, a, r)
        finally:
            w.kill()

    threads = [threading.Thread(target=loop, daemon=True) for _ in range(jobs)]
    for t in threads:
        t.start()
    for t in threads:
        t.join()
    return results


# ---------------------------------------------------------------------------
# Known findings
# ---------------------------------------------------------------------------


def load_known_findings():
    path = os.path.join(VERIF, "known_findings.json")
    if not os.path.exists(path):
        return []
    with open(path) as f:
        return json.load(f)["findings"]


# ---------------------------------------------------------------------------
# Check context
# ---------------------------------------------------------------------------


class Inconclusive(Exception):
    pass


class Ctx(object):
    """One run of one check."""

    def __init__(self, pid, tier, seed, level="exploration"):
        self.pid = pid
        self.tier = tier
        self.seed = seed
        self.level = level
        self.t0 = time.time()
        self.violations = []  # unlisted
        self.known_hits = collections.OrderedDict()  # key -> [count, what, example]
        self.counters = collections.Counter()
        self.samples = []
        self.distinct = set()
        self.evaluations = 0
        self.rule = ""
        self.extra = {}
        self.assumptions = []
        self.inconclusive_cases = 0
        self.known = [f for f in load_known_findings()
                      if f["property"] == pid and f.get("status") == "known"]
        self._replay_n = 0
        import glob
        for old in glob.glob(os.path.join(VERIF, "replays", pid, "%s-s%d-*.json" % (tier, seed))):
            try:
                os.unlink(old)
            except OSError:
                pass

    # -- counting ---------------------------------------------------------
    def count(self, key, n=1):
        self.counters[key] += n

    def sample(self, obj, limit=6):
        if len(self.samples) < limit:
            self.samples.append(obj)

    def nontrivial(self, key):
        self.distinct.add(key if isinstance(key, (str, int, tuple)) else json.dumps(key, sort_keys=True))

    # -- violations -------------------------------------------------------
    def violation(self, mech, what, replay):
        """mech: mechanism key computed by the check's classifier (string).
        A violation whose mech equals a listed known finding's key is reported
        as KNOWN-FINDING; anything else is a VIOLATION."""
        for f in self.known:
            if f["key"] == mech:
                ent = self.known_hits.setdefault(mech, [0, f["what"], replay])
                ent[0] += 1
                return False
        self._replay_n += 1
        d = os.path.join(VERIF, "replays", self.pid)
        os.makedirs(d, exist_ok=True)
        name = "%s-s%d-%03d.json" % (self.tier, self.seed, self._replay_n)
        path = os.path.join(d, name)
        self._per_mech = getattr(self, "_per_mech", collections.Counter())
        self._per_mech[mech] += 1
        if self._per_mech[mech] <= 3 and len(self._per_mech) <= 60:
            with open(path, "w") as f:
                json.dump({"property": self.pid, "mechanism": mech, "what": what,
                           "tier": self.tier, "seed": self.seed, "replay": replay},
                          f, indent=1, default=str)
        else:
            # keep the line format valid: point at the first replay of this mechanism
            for m2, _w2, p2 in self.violations:
                if m2 == mech:
                    path = p2
                    break
        self.violations.append((mech, what, path))
        return True

    # -- finish -----------------------------------------------------------
    def finish(self, min_evals=1, require=()):
        wall = time.time() - self.t0
        cov = {
            "evaluations": int(self.evaluations),
            "distinct_nontrivial": len(self.distinct),
            "rule": self.rule,
            "samples": self.samples,
            "counters": dict(self.counters),
            "inconclusive_cases": self.inconclusive_cases,
            "known_findings_hit": {k: v[0] for k, v in self.known_hits.items()},
        }
        cov.update(self.extra)
        ev = {
            "property_id": self.pid,
            "tier": self.tier,
            "seed": self.seed,
            "level": self.level,
            "coverage": cov,
            "assumptions": self.assumptions,
            "wall_s": round(wall, 2),
            "violations": len(self.violations),
            "repo": REPO,
        }
        os.makedirs(os.path.join(VERIF, "evidence"), exist_ok=True)
        with open(os.path.join(VERIF, "evidence", self.pid + ".json"), "w") as f:
            json.dump(ev, f, indent=1, default=str)
        for k, (n, what, _ex) in self.known_hits.items():
            print("KNOWN-FINDING: property=%s %s [key=%s, %d occurrence(s)]" % (self.pid, what, k, n))
        seen = set()
        for mech, what, path in self.violations:
            if mech in seen:
                continue
            seen.add(mech)
            print("VIOLATION property=%s replay=%s" % (self.pid, path))
            print("  mechanism: %s" % mech)
            print("  %s" % (what[:600],))
        if self.violations:
            print("%s: %d violation(s), %d distinct mechanism(s)" % (self.pid, len(self.violations), len(seen)))
            return 1
        reasons = []
        if MONITOR_ERRORS:
            print("monitor fault (harness error, not a verdict):\n" + MONITOR_ERRORS[0][-1200:])
            reasons.append("%d monitor hook(s) raised: the oracle did not see those executions" % len(MONITOR_ERRORS))
        if self.evaluations < min_evals:
            reasons.append("only %d evaluations (< %d)" % (self.evaluations, min_evals))
        for key in require:
            if not self.counters.get(key):
                reasons.append("monitor counter %r is zero" % key)
        if self.evaluations and self.inconclusive_cases > 0.05 * self.evaluations:
            reasons.append("%d of %d cases inconclusive" % (self.inconclusive_cases, self.evaluations))
        if len(self.distinct) < 2:
            reasons.append("fewer than 2 distinct non-trivial cases")
        if reasons:
            print("INCONCLUSIVE property=%s reason=%s" % (self.pid, "; ".join(reasons)))
            return 2
        print("%s held on what was observed: evaluations=%d distinct_nontrivial=%d wall=%.1fs %s" % (
            self.pid, self.evaluations, len(self.distinct), wall,
            " ".join("%s=%s" % kv for kv in sorted(self.counters.items())[:14])))
        return 0
