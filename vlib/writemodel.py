"""Model of CouldWriteValue / TryToWrite for a writable scalar leaf."""

from vlib import refsem
from vlib.refsem import ArrayView, ScalarView, StructView, known


def resolve(view, path):
    """Walks a leaf path [("f", name) | ("i", index)] from a StructView.
    Returns the final view object (ScalarView) or None when not reachable as a
    physical scalar (virtual leaves are handled by the caller)."""
    cur = view
    for kind, x in path:
        if kind == "f":
            if not isinstance(cur, StructView):
                return None
            f = cur.s.field(x)
            if f is None or f.kind == "virtual":
                return None
            cur = cur.field_view(f)
            if cur is refsem.UNSPEC:
                return refsem.UNSPEC
        else:
            if not isinstance(cur, ArrayView):
                return None
            c = cur.count()
            if c is refsem.UNSPEC:
                return refsem.UNSPEC
            if cur.store.null:
                return "null"
            if not known(c) or x >= c:
                return "oob"
            cur = cur.element(x)
    return cur


def expected_write(view, leaf, value):
    """Returns dict(could, try, after(bytes) or None, mask(list of abs bit
    addrs), readback) or None when the model abstains (UNSPEC)."""
    buf = view.store.buf
    before = bytes(buf)
    if "virtual" in leaf:
        tname, a, b = leaf["virtual"]
        # v = a*target + b  ->  target = (v - b) / a  (a is +1 or -1)
        tval = (value - b) * a
        target = resolve(view, leaf["path"][:-1] + (("f", tname),))
    else:
        tval = value
        target = resolve(view, leaf["path"])
    if target is refsem.UNSPEC or target == "oob":
        return None
    if target is None or target == "null" or not isinstance(target, ScalarView):
        return None
    t = target.t
    nbits = target.nbits
    if nbits is None:
        # null view: width comes from the type / static field size; could is
        # still a function of the value only, but we abstain to stay sound
        return None
    if t.kind == "flag":
        raw = 1 if tval else 0
    elif t.kind == "float":
        raw = tval & ((1 << nbits) - 1)  # the driver passes the low bits as the IEEE pattern
    else:
        raw = refsem.encode_scalar(t, tval, nbits)
    could = raw is not None
    if could and target.requires is not None:
        r = target.scope.eval(target.requires, this=tval)
        if r is refsem.UNSPEC:
            return None
        could = r is True
    complete = target.is_complete()
    tr = could and complete
    after = None
    mask = target.addrs() if complete else []
    if tr:
        nb = bytearray(before)
        refsem.write_bits(nb, mask, raw)
        after = bytes(nb)
    else:
        after = before
    return {"could": could, "try": tr, "after": after, "mask": mask, "target_type": t.kind,
            "signed_enum_negative": t.kind == "enum" and t.ref.signed() and
            (tval < 0 or tval >= (1 << (nbits - 1))) and nbits < 64,
            "nbits": nbits, "tval": tval}
