"""In-process access to the real compiler entry points with in-memory files."""

import os
import signal
import traceback

from vlib import common


class CaseTimeout(Exception):
    pass


def _alarm(_sig, _frm):
    raise CaseTimeout()


class watchdog(object):
    """Generous wall-clock watchdog around one case (main thread only).  Its
    firing is 'inconclusive', never a violation."""

    def __init__(self, seconds):
        self.seconds = seconds

    def __enter__(self):
        self.old = signal.signal(signal.SIGALRM, _alarm)
        signal.setitimer(signal.ITIMER_REAL, self.seconds)

    def __exit__(self, *a):
        signal.setitimer(signal.ITIMER_REAL, 0)
        signal.signal(signal.SIGALRM, self.old)
        return False


def reader(files):
    def read(name):
        if name in files and files[name] is not None:
            return files[name], None
        return None, ["[Errno 2] No such file or directory: %r" % name, "import path ."]
    return read


_clear_n = [0]


_warmed = [False]


def parse(files, main="m.emb", stop_before_step=None, budget=25):
    """Returns (ir, debug_info, errors) from the real glue.parse_emboss_file.
    Runs under a CPU-seconds budget (raises CpuBudgetExceeded) when called from
    the main thread, so one pathological input cannot stall a whole batch."""
    common.repo_on_path()
    from compiler.front_end import glue
    if not _warmed[0]:
        from compiler.front_end import parser
        parser.module_parser()
        _warmed[0] = True
    import threading
    if budget and threading.current_thread() is threading.main_thread() and \
            signal.getitimer(signal.ITIMER_VIRTUAL)[0] == 0:
        with cpu_budget(budget):
            return parse(files, main, stop_before_step, budget=None)
    _clear_n[0] += 1
    if _clear_n[0] % 200 == 0:
        keep = {k: v for k, v in glue._cached_modules.items() if k[1] == ""}
        glue._cached_modules.clear()
        glue._cached_modules.update(keep)
    return glue.parse_emboss_file(main, reader(files), stop_before_step=stop_before_step)


def header(ir, traits=True):
    from compiler.back_end.cpp import header_generator
    return header_generator.generate_header(ir, header_generator.Config(include_enum_traits=traits))


def crash_site(exc):
    """(exception type, innermost frame inside the repository) for bucketing.
    Generic dispatch frames (traverse_ir) are skipped in favour of the nearest
    specific frame; for traverse_ir's own argument assertion the called
    function is taken from the message."""
    import re
    tb = traceback.extract_tb(exc.__traceback__)
    site = "?"
    specific = None
    for fr in tb:
        fn = fr.filename
        if common.REPO in fn or "/compiler/" in fn:
            site = "%s.%s" % (os.path.splitext(os.path.basename(fn))[0], fr.name)
            if "traverse_ir" not in fn and "simple_memoizer" not in fn:
                specific = site
    if site.startswith("traverse_ir."):
        m = re.search(r"Attempting to call '(\w+)'; missing (\{[^}]*\})", str(exc))
        if m:
            names = sorted(re.findall(r"\w+", m.group(2)))  # a set's repr: order depends on the hash seed
            site = "traverse_ir.invoke(%s missing {%s})" % (m.group(1), ", ".join("'%s'" % n for n in names))
        elif specific:
            site = specific
    return type(exc).__name__, site


class CpuBudgetExceeded(Exception):
    pass


def _vtalarm(_sig, _frm):
    raise CpuBudgetExceeded()


class cpu_budget(object):
    """Logical budget in process CPU seconds (ITIMER_VIRTUAL): immune to
    machine load, unlike a wall-clock deadline."""

    def __init__(self, seconds):
        self.seconds = seconds

    def __enter__(self):
        self.old = signal.signal(signal.SIGVTALRM, _vtalarm)
        signal.setitimer(signal.ITIMER_VIRTUAL, self.seconds)

    def __exit__(self, *a):
        signal.setitimer(signal.ITIMER_VIRTUAL, 0)
        signal.signal(signal.SIGVTALRM, self.old)
        return False


def error_messages(errors):
    out = []
    for g in errors or []:
        for m in g:
            out.append(m)
    return out
